package rules

import (
	"fmt"
	"go/ast"
	"go/constant"
	"go/token"
	"go/types"
	"regexp"
	"sort"
	"strconv"
	"strings"

	"golang.org/x/tools/go/packages"
	"golang.org/x/tools/go/ssa"

	"verif/checker/core"
)

func init() { register("C13", checkC13) }

const gocommonDates = "github.com/nyaruka/gocommon/dates"

// pkgStrings: package-level string constants and variables initialised with a string literal or constant, and
// []string variables initialised with a list of those.
func pkgStrings(pk *packages.Package) (map[string]string, map[string][]string) {
	strs := map[string]string{}
	lists := map[string][]string{}
	var listSpecs []*ast.ValueSpec
	for _, f := range pk.Syntax {
		for _, d := range f.Decls {
			gd, ok := d.(*ast.GenDecl)
			if !ok || (gd.Tok != token.VAR && gd.Tok != token.CONST) {
				continue
			}
			for _, sp := range gd.Specs {
				vs := sp.(*ast.ValueSpec)
				for i, nm := range vs.Names {
					if c, ok := pk.TypesInfo.Defs[nm].(*types.Const); ok && c.Val().Kind() == constant.String {
						strs[nm.Name] = constant.StringVal(c.Val())
						continue
					}
					if i < len(vs.Values) {
						if tv, ok := pk.TypesInfo.Types[vs.Values[i]]; ok && tv.Value != nil && tv.Value.Kind() == constant.String {
							strs[nm.Name] = constant.StringVal(tv.Value)
						} else if _, ok := vs.Values[i].(*ast.CompositeLit); ok {
							listSpecs = append(listSpecs, vs)
						}
					}
				}
			}
		}
	}
	for _, vs := range listSpecs {
		for i, nm := range vs.Names {
			cl, ok := vs.Values[i].(*ast.CompositeLit)
			if !ok {
				continue
			}
			var out []string
			good := true
			for _, e := range cl.Elts {
				if id, ok := e.(*ast.Ident); ok {
					if s, ok := strs[id.Name]; ok {
						out = append(out, s)
						continue
					}
				}
				if tv, ok := pk.TypesInfo.Types[e]; ok && tv.Value != nil && tv.Value.Kind() == constant.String {
					out = append(out, constant.StringVal(tv.Value))
					continue
				}
				good = false
			}
			if good && len(out) > 0 {
				lists[nm.Name] = out
			}
		}
	}
	return strs, lists
}

// layoutSequences reads gocommon's table of layout sequences (sequence -> Go reference-time text).
func layoutSequences(p *core.Program) map[string]string {
	pk := p.ByPkg[gocommonDates]
	if pk == nil {
		return nil
	}
	out := map[string]string{}
	for _, f := range pk.Syntax {
		ast.Inspect(f, func(n ast.Node) bool {
			vs, ok := n.(*ast.ValueSpec)
			if !ok || len(vs.Names) != 1 || vs.Names[0].Name != "layoutSequences" || len(vs.Values) != 1 {
				return true
			}
			cl, ok := vs.Values[0].(*ast.CompositeLit)
			if !ok {
				return true
			}
			for _, e := range cl.Elts {
				kv, ok := e.(*ast.KeyValueExpr)
				if !ok {
					continue
				}
				k, ok1 := kv.Key.(*ast.BasicLit)
				v, ok2 := kv.Value.(*ast.CompositeLit)
				if !ok1 || !ok2 || len(v.Elts) == 0 {
					continue
				}
				m, ok := v.Elts[0].(*ast.BasicLit)
				if !ok {
					continue
				}
				ks, _ := strconv.Unquote(k.Value)
				ms, _ := strconv.Unquote(m.Value)
				out[ks] = ms
			}
			return false
		})
	}
	return out
}

// referenceInstance renders a layout such as "DD-MM-YYYY tt:mm" as the text of Go's reference time
// (2006-01-02 15:04:05 pm): every component of that instant has a different value, so a swapped table shows.
func referenceInstance(layout string, seqs map[string]string) (string, error) {
	var sb strings.Builder
	for i := 0; i < len(layout); {
		ch := layout[i]
		if (ch >= 'a' && ch <= 'z') || (ch >= 'A' && ch <= 'Z') {
			j := i
			for j < len(layout) && layout[j] == ch {
				j++
			}
			seq := layout[i:j]
			if seq == "T" && j-i == 1 {
				sb.WriteByte('T')
				i = j
				continue
			}
			m, ok := seqs[seq]
			if !ok {
				return "", fmt.Errorf("layout %q uses unknown sequence %q", layout, seq)
			}
			sb.WriteString(m)
			i = j
			continue
		}
		sb.WriteByte(ch)
		i++
	}
	return sb.String(), nil
}

func globalPattern(p *core.Program, g *ssa.Global) (string, bool) {
	for _, m := range g.Pkg.Members {
		f, ok := m.(*ssa.Function)
		if !ok || !strings.HasPrefix(f.Name(), "init") {
			continue
		}
		for _, b := range f.Blocks {
			for _, in := range b.Instrs {
				st, ok := in.(*ssa.Store)
				if !ok || st.Addr != g {
					continue
				}
				if call, ok := st.Val.(*ssa.Call); ok {
					if o := core.CalleeObj(&call.Call); o != nil && core.ObjName(o) == "regexp.MustCompile" {
						return core.ConstString(call.Call.Args[0])
					}
				}
			}
		}
	}
	return "", false
}

func loadedGlobal(v ssa.Value) *ssa.Global {
	if ld, ok := v.(*ssa.UnOp); ok && ld.Op == token.MUL {
		g, _ := ld.X.(*ssa.Global)
		return g
	}
	return nil
}

// indexParams: the parameters (or constants) used as index into a slice anywhere in the data slice of v.
func indexOperands(v ssa.Value) (params []*ssa.Parameter, consts []int64) {
	for x := range core.BackSlice(v, func(*ssa.Call) bool { return true }) {
		ia, ok := x.(*ssa.IndexAddr)
		if !ok {
			continue
		}
		if pr, ok := ia.Index.(*ssa.Parameter); ok {
			params = append(params, pr)
		} else if k, ok := core.ConstInt(ia.Index); ok {
			if _, isStr := ia.Type().(*types.Pointer).Elem().Underlying().(*types.Basic); isStr {
				consts = append(consts, k)
			}
		}
	}
	return
}

type cval struct {
	kind byte // 0 unknown, 'i', 's', 'b'
	i    int64
	s    string
	b    bool
}

// fragEval interprets the loop-free fragment of fn between the definitions in env and the instruction stop, for
// concrete ints, strings and bools; unknown branch conditions fork. It returns the values `want` can take at stop.
func fragEval(fn *ssa.Function, env map[ssa.Value]cval, start *ssa.BasicBlock, stop ssa.Instruction, want ssa.Value) []cval {
	var results []cval
	type state struct {
		blk, prev *ssa.BasicBlock
		env       map[ssa.Value]cval
		seen      map[*ssa.BasicBlock]bool
	}
	get := func(e map[ssa.Value]cval, v ssa.Value) cval {
		if c, ok := v.(*ssa.Const); ok && c.Value != nil {
			switch c.Value.Kind() {
			case constant.Int:
				k, _ := constant.Int64Val(c.Value)
				return cval{kind: 'i', i: k}
			case constant.String:
				return cval{kind: 's', s: constant.StringVal(c.Value)}
			case constant.Bool:
				return cval{kind: 'b', b: constant.BoolVal(c.Value)}
			}
		}
		return e[v]
	}
	var run func(st state)
	steps := 0
	run = func(st state) {
		for {
			steps++
			if steps > 200000 || st.seen[st.blk] {
				return
			}
			st.seen[st.blk] = true
			for _, in := range st.blk.Instrs {
				if in == stop {
					results = append(results, get(st.env, want))
					return
				}
				switch x := in.(type) {
				case *ssa.Phi:
					for i, pr := range st.blk.Preds {
						if pr == st.prev {
							st.env[x] = get(st.env, x.Edges[i])
						}
					}
				case *ssa.BinOp:
					if _, preset := env[x]; preset {
						continue
					}
					a, b := get(st.env, x.X), get(st.env, x.Y)
					var r cval
					if a.kind == 'i' && b.kind == 'i' {
						switch x.Op {
						case token.ADD:
							r = cval{kind: 'i', i: a.i + b.i}
						case token.SUB:
							r = cval{kind: 'i', i: a.i - b.i}
						case token.MUL:
							r = cval{kind: 'i', i: a.i * b.i}
						case token.LSS:
							r = cval{kind: 'b', b: a.i < b.i}
						case token.LEQ:
							r = cval{kind: 'b', b: a.i <= b.i}
						case token.GTR:
							r = cval{kind: 'b', b: a.i > b.i}
						case token.GEQ:
							r = cval{kind: 'b', b: a.i >= b.i}
						case token.EQL:
							r = cval{kind: 'b', b: a.i == b.i}
						case token.NEQ:
							r = cval{kind: 'b', b: a.i != b.i}
						}
					} else if a.kind == 's' && b.kind == 's' {
						switch x.Op {
						case token.EQL:
							r = cval{kind: 'b', b: a.s == b.s}
						case token.NEQ:
							r = cval{kind: 'b', b: a.s != b.s}
						case token.ADD:
							r = cval{kind: 's', s: a.s + b.s}
						}
					}
					st.env[x] = r
				case *ssa.UnOp:
					if _, preset := env[x]; preset {
						continue
					}
					a := get(st.env, x.X)
					if x.Op == token.NOT && a.kind == 'b' {
						st.env[x] = cval{kind: 'b', b: !a.b}
					} else if x.Op == token.SUB && a.kind == 'i' {
						st.env[x] = cval{kind: 'i', i: -a.i}
					} else {
						st.env[x] = cval{}
					}
				case *ssa.If:
					c := get(st.env, x.Cond)
					next := func(k int) state {
						e2 := make(map[ssa.Value]cval, len(st.env))
						for a, b := range st.env {
							e2[a] = b
						}
						s2 := make(map[*ssa.BasicBlock]bool, len(st.seen))
						for a, b := range st.seen {
							s2[a] = b
						}
						return state{st.blk.Succs[k], st.blk, e2, s2}
					}
					if c.kind == 'b' {
						k := 1
						if c.b {
							k = 0
						}
						st = next(k)
					} else {
						run(next(1))
						st = next(0)
					}
					goto nextBlock
				case *ssa.Jump:
					st = state{st.blk.Succs[0], st.blk, st.env, st.seen}
					goto nextBlock
				case *ssa.Return, *ssa.Panic:
					return
				case ssa.Value:
					if _, preset := env[x]; !preset {
						st.env[x] = cval{}
					}
				}
			}
			return
		nextBlock:
		}
	}
	e0 := make(map[ssa.Value]cval, len(env))
	for a, b := range env {
		e0[a] = b
	}
	run(state{start, nil, e0, map[*ssa.BasicBlock]bool{}})
	return results
}

func checkC13(p *core.Program, r *core.Report) {
	r.Rule("R1", "date tables agree: parseDate has an arm for each of the 3 DateFormat constants; rendering each constant for Go's reference date (all components distinct) and matching it with the arm's pattern puts 2006 / 01 / 02 in the capture groups the arm passes as year / month / day (roles read from which group reaches which argument of dates.NewDate)")
	r.Rule("R2", "time tables agree: the reference rendering of each of the 4 TimeFormat constants and of the ISO time layout is matched by patternTime with hour, minute, second, fraction and am/pm in the groups parseTime reads them from; the 12-hour conversion evaluated over hour 0..24 x {none, am, pm} is the standard one; the fraction digits reach the nanoseconds through integer parsing only")
	r.Rule("R3", "ISO forms: the layouts Render uses (dates.FormatISO, Date.String, TimeOfDay.String) are, up to fractional digits, layouts the parsers try, and they are tried before the environment format")
	r.Rule("R4", "layout/format agreement: where a value is printed with fmt.Sprintf and read back with time.Parse, every component's width agrees (2006 needs %04d, 01/02 need %02d, 1/2 take %d)")
	r.Rule("R5", "numbers: XNumber.Render is decimal.String; the only gate of newXNumberFromString, decimalRegexp, accepts every plain decimal (language inclusion of -?[0-9]+(\\.[0-9]+)? decided on automata); ToXNumber's text arm goes through it")
	r.Rule("R6", "JSON: jsonTypeToXValue has an arm for each of the 6 value types a valid document contains and builds the matching X type; no regexp gate narrower than the JSON number grammar stands between a JSON number and its XNumber; decimals marshal without quotes; every XValue type has its own MarshalJSON; array and object marshalers emit every element")
	r.Rule("R7", "`=` and `!=` compare canonical renderings: both are built by textualBinary, which converts each operand with ToXText (Render); NotEqual is the negation of the same XText.Equals call; XText.Equals is string equality")
	r.Rule("R8", "a year is read as two-digit only when two digits were matched: every place in envs that adds a century (1900 / 2000) to a parsed year is guarded — in the function or at every call site of the helper it sits in — by a test on the length of the matched text, not on the year's value (years 1–99 are rendered with four digits, 0045, and must read back as 45)")
	r.Rule("R9", "whether a component was found is asked of the parser, not of the value: where envs calls one of its own functions that returns (found bool, value) and uses the value, it also uses the flag — midnight (00:00, 12:00 am) is a time that was found and whose value is the zero time of day; deciding `no time given` by comparing the value with zero fills a stored midnight with the current time when it is read back into a contact field")
	r.Assumption("Go's time.Parse/Format, shopspring/decimal's String/NewFromString and buger/jsonparser are taken as correct; DST folds, UTC offsets with a seconds part, and locales whose am/pm markers are not am/pm are outside what is decided")

	envsPk := p.Pkg("envs")
	envsSSA := p.SSAPkg("envs")
	typesSSA := p.SSAPkg("excellent/types")
	if envsPk == nil || envsSSA == nil || typesSSA == nil {
		r.Errorf("packages envs / excellent/types not loaded")
		return
	}
	seqs := layoutSequences(p)
	if !r.Require("gocommon_layout_sequences", len(seqs), 20) {
		return
	}
	envStrs, envLists := pkgStrings(envsPk)

	c13Dates(p, r, envsPk, envsSSA, seqs)
	c13Times(p, r, envsPk, envsSSA, seqs)
	c13ISO(p, r, envsSSA, seqs, envStrs, envLists)
	c13LayoutFormat(p, r)
	c13Numbers(p, r, typesSSA)
	c13JSON(p, r, typesSSA)
	c13Equal(p, r)
	c13CenturyPivot(p, r)
	c13FoundFlags(p, r)
}

// ---------------------------------------------------------------------------------------------- R9

func c13FoundFlags(p *core.Program, r *core.Report) {
	n := 0
	per := map[string]int{}
	for _, fn := range p.ModuleFunctions() {
		if core.RelPkg(core.FuncPkgPath(fn)) != "envs" || p.IsTestFile(fn.Pos()) || fn.Synthetic != "" {
			continue
		}
		for _, cs := range core.Calls(fn, false) {
			g := cs.Common().StaticCallee()
			if g == nil || core.FuncPkgPath(g) != core.FuncPkgPath(fn) || g.Signature.Results().Len() != 2 {
				continue
			}
			if b, ok := g.Signature.Results().At(0).Type().Underlying().(*types.Basic); !ok || b.Kind() != types.Bool {
				continue
			}
			call, ok := cs.Instr.(*ssa.Call)
			if !ok || call.Referrers() == nil {
				continue
			}
			used := [2]bool{}
			for _, ref := range *call.Referrers() {
				if ex, ok := ref.(*ssa.Extract); ok && ex.Index < 2 && ex.Referrers() != nil && len(*ex.Referrers()) > 0 {
					used[ex.Index] = true
				}
			}
			if !used[1] {
				continue
			}
			n++
			k := core.FuncName(fn) + "->" + g.Name()
			per[k]++
			key := k
			if per[k] > 1 {
				key = fmt.Sprintf("%s#%d", k, per[k])
			}
			r.Check(used[0], "R9", key+"/found-flag-used", p.Pos(cs.Pos()), "the value is used together with the flag that says it was found", "the value "+g.Name()+" returns is used but the flag that says whether anything was found is dropped: `nothing found` is then told from the value, and a found value that equals the zero value (midnight) counts as missing")
		}
	}
	r.Count("found_flag_call_sites", n)
	r.Require("found_flag_call_sites", n, 1)
}

// ---------------------------------------------------------------------------------------------- R8

func c13CenturyPivot(p *core.Program, r *core.Report) {
	isWidthTest := func(ce core.CondEdge) bool {
		b, ok := ce.Cond.(*ssa.BinOp)
		if !ok {
			return false
		}
		for _, pair := range [][2]ssa.Value{{b.X, b.Y}, {b.Y, b.X}} {
			arg, isLen := isLenCall(pair[0])
			if !isLen {
				continue
			}
			if bt, isB := arg.Type().Underlying().(*types.Basic); !isB || bt.Info()&types.IsString == 0 {
				continue
			}
			if _, isC := pair[1].(*ssa.Const); isC {
				return true
			}
		}
		return false
	}
	var guarded func(b *ssa.BasicBlock, depth int) bool
	guarded = func(b *ssa.BasicBlock, depth int) bool {
		for _, ce := range core.ControllingConds(b) {
			if isWidthTest(ce) {
				return true
			}
		}
		if depth >= 2 {
			return false
		}
		// the pivot sits in a helper: every call of the helper has to be guarded
		sites := p.CallsTo(b.Parent())
		if len(sites) == 0 {
			return false
		}
		for _, cs := range sites {
			if !guarded(cs.Instr.Block(), depth+1) {
				return false
			}
		}
		return true
	}
	n := 0
	per := map[string]int{}
	for _, fn := range p.ModuleFunctions() {
		if core.RelPkg(core.FuncPkgPath(fn)) != "envs" || p.IsTestFile(fn.Pos()) || fn.Synthetic != "" {
			continue
		}
		core.EachInstr(fn, false, func(_ *ssa.Function, in ssa.Instruction) {
			bo, ok := in.(*ssa.BinOp)
			if !ok || bo.Op != token.ADD {
				return
			}
			century := int64(0)
			for _, o := range []ssa.Value{bo.X, bo.Y} {
				if c, isC := core.ConstInt(o); isC && (c == 1900 || c == 2000) {
					century = c
				}
				// the century chosen into a local first: a phi of the two constants
				if ph, isPhi := o.(*ssa.Phi); isPhi && len(ph.Edges) > 0 {
					all := true
					for _, e := range ph.Edges {
						if c, isC := core.ConstInt(e); !isC || (c != 1900 && c != 2000) {
							all = false
						}
					}
					if all {
						century = 1900
					}
				}
			}
			if century == 0 {
				return
			}
			n++
			k := fmt.Sprintf("%s/+%d", core.FuncName(fn), century)
			per[k]++
			key := k
			if per[k] > 1 {
				key = fmt.Sprintf("%s#%d", k, per[k])
			}
			r.Check(guarded(bo.Block(), 0), "R8", key+"/only-for-two-matched-digits", p.Pos(bo.Pos()), "guarded by the length of the matched text",
				fmt.Sprintf("the century %d is added to a parsed year without a test on how many digits were matched: a year below 100 written with four digits (14-03-0045, which is how such a date is rendered) reads back as %d", century, century+45))
		})
	}
	r.Count("century_pivot_sites", n)
	r.Require("century_pivot_sites", n, 1)
}

func constsOfType(pk *packages.Package, typeName string) map[string]string {
	out := map[string]string{}
	sc := pk.Types.Scope()
	for _, nm := range sc.Names() {
		c, ok := sc.Lookup(nm).(*types.Const)
		if !ok {
			continue
		}
		if n, ok := c.Type().(*types.Named); ok && n.Obj().Name() == typeName && c.Val().Kind() == constant.String {
			out[nm] = constant.StringVal(c.Val())
		}
	}
	return out
}

// ---------------------------------------------------------------------------------------------- R1

func c13Dates(p *core.Program, r *core.Report, envsPk *packages.Package, envs *ssa.Package, seqs map[string]string) {
	formats := constsOfType(envsPk, "DateFormat")
	if !r.Require("date_format_constants", len(formats), 3) {
		return
	}
	parseDate, dff := envs.Func("parseDate"), envs.Func("dateFromFormats")
	if parseDate == nil || dff == nil {
		r.Errorf("anchors envs.parseDate / envs.dateFromFormats not found")
		return
	}
	// roles: which parameter of dateFromFormats indexes the group that becomes year / month / day
	roles := map[string]int{} // role -> parameter position
	for _, cs := range core.Calls(dff, false) {
		o := core.CalleeObj(cs.Common())
		if o == nil || core.ObjName(o) != gocommonDates+".NewDate" {
			continue
		}
		sig := o.Type().(*types.Signature)
		for k, want := range []string{"year", "month", "day"} {
			if k >= len(cs.Common().Args) {
				break
			}
			if nm := sig.Params().At(k).Name(); nm != "" && !strings.HasPrefix(strings.ToLower(nm), want[:1]) {
				r.Unknown("R1", "dates.NewDate/argument-roles", p.Pos(cs.Pos()), "parameter "+strconv.Itoa(k)+" of dates.NewDate is named "+nm+", expected the "+want)
				return
			}
			ps, _ := indexOperands(cs.Common().Args[k])
			if len(ps) != 1 {
				r.Unknown("R1", "dateFromFormats/"+want+"-group", p.Pos(cs.Pos()), fmt.Sprintf("the %s passed to NewDate is indexed by %d parameters, expected one", want, len(ps)))
				return
			}
			for i, fp := range dff.Params {
				if fp == ps[0] {
					roles[want] = i
				}
			}
		}
	}
	if len(roles) != 3 {
		r.Errorf("dateFromFormats: could not read the year/month/day group parameters")
		return
	}
	// the year is taken as written: any arithmetic on it (the two-digit expansion) is controlled by the length of
	// the year group's text, true for two characters and false for four — a rendered year 0001..0099 has four digits
	{
		yearP := dff.Params[roles["year"]]
		lenOfYearText := func(v ssa.Value) bool {
			a, ok := isLenCall(v)
			if !ok {
				return false
			}
			ps, _ := indexOperands(a)
			return len(ps) == 1 && ps[0] == yearP
		}
		holds := func(op token.Token, k, n int64) bool {
			switch op {
			case token.EQL:
				return n == k
			case token.NEQ:
				return n != k
			case token.LSS:
				return n < k
			case token.LEQ:
				return n <= k
			case token.GTR:
				return n > k
			case token.GEQ:
				return n >= k
			}
			return false
		}
		nAdj, bad, at := 0, "", dff.Pos()
		for _, cs := range core.Calls(dff, false) {
			if o := core.CalleeObj(cs.Common()); o == nil || core.ObjName(o) != gocommonDates+".NewDate" {
				continue
			}
			for v := range core.BackSlice(cs.Common().Args[0], nil) {
				bo, ok := v.(*ssa.BinOp)
				if !ok || (bo.Op != token.ADD && bo.Op != token.SUB && bo.Op != token.MUL && bo.Op != token.REM && bo.Op != token.QUO) {
					continue
				}
				nAdj++
				guarded := false
				for _, ce := range core.ControllingConds(bo.Block()) {
					c, ok := ce.Cond.(*ssa.BinOp)
					if !ok {
						continue
					}
					op, lenV, kV := c.Op, c.X, c.Y
					if !lenOfYearText(lenV) {
						lenV, kV = c.Y, c.X
						switch op {
						case token.LSS:
							op = token.GTR
						case token.GTR:
							op = token.LSS
						case token.LEQ:
							op = token.GEQ
						case token.GEQ:
							op = token.LEQ
						}
					}
					k, isC := core.ConstInt(kV)
					if !lenOfYearText(lenV) || !isC {
						continue
					}
					if holds(op, k, 2) == ce.Taken && holds(op, k, 4) != ce.Taken {
						guarded = true
					}
				}
				if !guarded && bad == "" {
					bad, at = "year "+bo.Op.String()+" "+canonShort(bo.Y), bo.Pos()
				}
			}
		}
		r.Check(bad == "", "R1", "dateFromFormats/year-as-written", p.Pos(at), fmt.Sprintf("%d adjustments of the year, each only for a two-character year text", nAdj),
			"the year is adjusted ("+bad+") without a test that its text has two characters rather than four: a date rendered with a four-digit year below 100 (0050) reads back as another year")
	}
	covered := map[string]bool{}
	for _, cs := range core.Calls(parseDate, false) {
		if cs.Common().StaticCallee() != dff {
			continue
		}
		// the arm's constant
		armConst := ""
		for _, ce := range core.ControllingConds(cs.Instr.Block()) {
			bo, ok := ce.Cond.(*ssa.BinOp)
			if !ok || bo.Op != token.EQL || !ce.Taken {
				continue
			}
			if s, ok := core.ConstString(bo.Y); ok {
				armConst = s
			} else if s, ok := core.ConstString(bo.X); ok {
				armConst = s
			}
		}
		construct := "parseDate/arm " + armConst
		if armConst == "" {
			r.Unknown("R1", "parseDate/arm@"+p.Pos(cs.Pos()), p.Pos(cs.Pos()), "cannot tell for which date format this call to dateFromFormats runs")
			continue
		}
		covered[armConst] = true
		args := cs.Common().Args
		g := loadedGlobal(args[1])
		if g == nil {
			r.Unknown("R1", construct+"/pattern", p.Pos(cs.Pos()), "pattern is not a package-level regexp")
			continue
		}
		pat, ok := globalPattern(p, g)
		if !ok {
			r.Unknown("R1", construct+"/pattern", p.Pos(cs.Pos()), g.Name()+" is not compiled from a constant")
			continue
		}
		inst, err := referenceInstance(armConst, seqs)
		if err != nil {
			r.Bad("R1", construct+"/layout", p.Pos(cs.Pos()), err.Error())
			continue
		}
		m := regexp.MustCompile(pat).FindStringSubmatch(inst)
		if m == nil {
			r.Bad("R1", construct+"/reference-date-matches", p.Pos(cs.Pos()), "the reference date rendered as "+armConst+" is `"+inst+"`, which "+g.Name()+" does not match: what format_date prints in this environment cannot be read back")
			continue
		}
		good := true
		var detail []string
		for _, role := range []string{"year", "month", "day"} {
			k, ok := core.ConstInt(args[roles[role]])
			want := map[string]string{"year": "2006", "month": "01", "day": "02"}[role]
			if !ok || int(k) >= len(m) {
				good = false
				detail = append(detail, role+" group is not a constant in range")
				continue
			}
			detail = append(detail, fmt.Sprintf("%s=group %d `%s`", role, k, m[k]))
			if m[k] != want {
				good = false
			}
		}
		r.Check(good, "R1", construct+"/groups-agree", p.Pos(cs.Pos()), "`"+inst+"` -> "+strings.Join(detail, ", "),
			"rendering the reference date 2006-01-02 as "+armConst+" gives `"+inst+"`, and the arm reads "+strings.Join(detail, ", ")+": the parser swaps components the formatter wrote")
	}
	for name, val := range formats {
		r.Check(covered[val], "R1", "parseDate/covers "+name, p.Pos(parseDate.Pos()), "arm for "+val, "no arm of parseDate handles "+name+" ("+val+"): dates rendered in that environment cannot be read back")
	}
}

// ---------------------------------------------------------------------------------------------- R2

func c13Times(p *core.Program, r *core.Report, envsPk *packages.Package, envs *ssa.Package, seqs map[string]string) {
	formats := constsOfType(envsPk, "TimeFormat")
	if !r.Require("time_format_constants", len(formats), 4) {
		return
	}
	parseTime := envs.Func("parseTime")
	g, _ := envs.Members["patternTime"].(*ssa.Global)
	if parseTime == nil || g == nil {
		r.Errorf("anchors envs.parseTime / envs.patternTime not found")
		return
	}
	pat, ok := globalPattern(p, g)
	if !ok {
		r.Errorf("patternTime is not compiled from a constant")
		return
	}
	// roles from the NewTimeOfDay call
	var newTOD *ssa.Call
	for _, cs := range core.Calls(parseTime, false) {
		if o := core.CalleeObj(cs.Common()); o != nil && core.ObjName(o) == gocommonDates+".NewTimeOfDay" {
			newTOD, _ = cs.Instr.(*ssa.Call)
		}
	}
	if newTOD == nil || len(newTOD.Call.Args) != 4 {
		r.Errorf("parseTime does not build its result with dates.NewTimeOfDay(hour, minute, second, nanos)")
		return
	}
	roles := map[string]int{}
	for k, role := range []string{"hour", "minute", "second", "fraction"} {
		_, cs := indexOperands(newTOD.Call.Args[k])
		set := map[int64]bool{}
		for _, c := range cs {
			set[c] = true
		}
		if len(set) != 1 {
			r.Unknown("R2", "parseTime/"+role+"-group", p.Pos(newTOD.Pos()), fmt.Sprintf("the %s passed to NewTimeOfDay is read from %d groups, expected one", role, len(set)))
			return
		}
		for c := range set {
			roles[role] = int(c)
		}
	}
	// am/pm: the group compared with "am"/"pm"
	var ampmVal ssa.Value
	for _, b := range parseTime.Blocks {
		for _, in := range b.Instrs {
			bo, ok := in.(*ssa.BinOp)
			if !ok || bo.Op != token.EQL {
				continue
			}
			if s, ok := core.ConstString(bo.Y); ok && (s == "am" || s == "pm") {
				ampmVal = bo.X
			}
		}
	}
	if ampmVal == nil {
		r.Errorf("parseTime compares nothing with \"am\" / \"pm\"")
		return
	}
	_, cs := indexOperands(ampmVal)
	if len(cs) != 1 {
		r.Unknown("R2", "parseTime/ampm-group", p.Pos(parseTime.Pos()), "the am/pm marker is not read from exactly one group")
		return
	}
	roles["ampm"] = int(cs[0])
	r.Tables["parseTime_groups"] = roles

	layouts := map[string]string{}
	for n, v := range formats {
		layouts[n] = v
	}
	if gc := p.ByPkg[gocommonDates]; gc != nil {
		s, _ := pkgStrings(gc)
		if v, ok := s["iso8601Time"]; ok {
			layouts["dates.iso8601Time (XTime.Render)"] = v
		}
	}
	r.Require("time_layouts", len(layouts), 5)
	re := regexp.MustCompile(pat)
	for _, name := range core.SortedKeys(layouts) {
		layout := layouts[name]
		inst, err := referenceInstance(layout, seqs)
		if err != nil {
			r.Bad("R2", "patternTime/"+name, p.Pos(parseTime.Pos()), err.Error())
			continue
		}
		m := re.FindStringSubmatch(inst)
		want := map[string][]string{"hour": {"15"}, "minute": {""}, "second": {""}, "fraction": {""}, "ampm": {""}}
		if strings.Contains(layout, "h") {
			want["hour"] = []string{"3", "03"}
		}
		if strings.Contains(layout, "m") {
			want["minute"] = []string{"04", "4"}
		}
		if strings.Contains(layout, "s") {
			want["second"] = []string{"05", "5"}
		}
		if strings.Contains(layout, "f") {
			want["fraction"] = []string{strings.Repeat("0", strings.Count(layout, "f"))}
		}
		if strings.Contains(layout, "aa") {
			want["ampm"] = []string{"pm"}
		}
		good := m != nil
		var detail []string
		for _, role := range []string{"hour", "minute", "second", "fraction", "ampm"} {
			if m == nil {
				break
			}
			got := m[roles[role]]
			detail = append(detail, role+"=`"+got+"`")
			okRole := false
			for _, w := range want[role] {
				if got == w {
					okRole = true
				}
			}
			if !okRole {
				good = false
			}
		}
		r.Check(good, "R2", "patternTime/"+name, p.Pos(parseTime.Pos()), "`"+inst+"` -> "+strings.Join(detail, " "),
			"the reference time 15:04:05 rendered as "+layout+" is `"+inst+"`, but parseTime reads "+strings.Join(detail, " ")+" from it")
	}

	// 12-hour conversion: evaluate the hour passed to NewTimeOfDay over hour x marker
	var rawHour ssa.Value
	for x := range core.BackSlice(newTOD.Call.Args[0], nil) {
		if ex, ok := x.(*ssa.Extract); ok && ex.Index == 0 {
			if c, ok := ex.Tuple.(*ssa.Call); ok {
				if o := core.CalleeObj(&c.Call); o != nil && core.ObjName(o) == "strconv.Atoi" {
					rawHour = ex
				}
			}
		}
	}
	if rawHour == nil {
		r.Unknown("R2", "parseTime/12-hour-conversion", p.Pos(parseTime.Pos()), "the hour is not read with strconv.Atoi")
	} else {
		bad := []string{}
		cells := 0
		for h := int64(0); h <= 24; h++ {
			for _, mk := range []string{"", "am", "pm"} {
				res := fragEval(parseTime, map[ssa.Value]cval{rawHour: {kind: 'i', i: h}, ampmVal: {kind: 's', s: mk}}, rawHour.(*ssa.Extract).Block(), newTOD, newTOD.Call.Args[0])
				want := h
				switch {
				case mk == "pm" && h < 12:
					want = h + 12
				case mk == "am" && h == 12:
					want = 0
				}
				cells++
				if len(res) == 0 {
					bad = append(bad, fmt.Sprintf("%d%s -> no result", h, mk))
					continue
				}
				for _, v := range res {
					// 24 is only the "24:00:00 is midnight" special case, with or without a (meaningless) marker
					if v.kind != 'i' || (v.i != want && !(h == 24 && v.i == 0)) {
						bad = append(bad, fmt.Sprintf("%d%s -> %v, expected %d", h, mk, v.i, want))
						break
					}
				}
			}
		}
		r.Count("twelve_hour_cells", cells)
		r.Check(len(bad) == 0, "R2", "parseTime/12-hour-conversion", p.Pos(parseTime.Pos()), fmt.Sprintf("%d cells (hour 0..24 x none/am/pm) give the 24-hour value", cells),
			"the hour parseTime hands to NewTimeOfDay is wrong for "+strings.Join(bad[:min(len(bad), 6)], "; "))
	}

	// fraction digits -> nanoseconds through integers only
	floatUse := ""
	var walk func(v ssa.Value, seen map[ssa.Value]bool, viaContent bool)
	walk = func(v ssa.Value, seen map[ssa.Value]bool, viaContent bool) {
		if v == nil || seen[v] {
			return
		}
		seen[v] = true
		switch x := v.(type) {
		case *ssa.Phi:
			for _, e := range x.Edges {
				walk(e, seen, viaContent)
			}
		case *ssa.BinOp:
			walk(x.X, seen, viaContent)
			walk(x.Y, seen, viaContent)
		case *ssa.UnOp:
			walk(x.X, seen, viaContent)
		case *ssa.Extract:
			walk(x.Tuple, seen, viaContent)
		case *ssa.Convert:
			if b, ok := x.X.Type().Underlying().(*types.Basic); ok && b.Info()&types.IsFloat != 0 {
				// a float converted to int: harmless only if the float does not carry the digits themselves
				if carriesContent(x.X, roles["fraction"]) {
					floatUse = "the fraction digits pass through a float (" + p.Pos(x.Pos()) + ")"
				}
				return
			}
			walk(x.X, seen, viaContent)
		case *ssa.Call:
			if o := core.CalleeObj(&x.Call); o != nil && core.ObjName(o) == "strconv.ParseFloat" {
				floatUse = "the fraction digits are read with strconv.ParseFloat (" + p.Pos(x.Pos()) + ")"
				return
			}
			if bi, ok := x.Call.Value.(*ssa.Builtin); ok && bi.Name() == "len" {
				return // only the length, not the digits
			}
			for _, a := range x.Call.Args {
				walk(a, seen, viaContent)
			}
		}
	}
	walk(newTOD.Call.Args[3], map[ssa.Value]bool{}, true)
	r.Check(floatUse == "", "R2", "parseTime/fraction-is-integer-arithmetic", p.Pos(newTOD.Pos()), "the digits after the seconds reach the nanoseconds through strconv.Atoi and an integer scale",
		floatUse+": a binary float cannot hold every 6- to 9-digit decimal fraction, so 10:30:45.123456 may come back as ...455999")
}

// carriesContent: v depends on the text of group k other than through len().
func carriesContent(v ssa.Value, k int) bool {
	found := false
	seen := map[ssa.Value]bool{}
	var walk func(v ssa.Value)
	walk = func(v ssa.Value) {
		if v == nil || seen[v] || found {
			return
		}
		seen[v] = true
		switch x := v.(type) {
		case *ssa.Phi:
			for _, e := range x.Edges {
				walk(e)
			}
		case *ssa.BinOp:
			walk(x.X)
			walk(x.Y)
		case *ssa.UnOp:
			walk(x.X)
		case *ssa.Extract:
			walk(x.Tuple)
		case *ssa.Convert:
			walk(x.X)
		case *ssa.Slice:
			walk(x.X)
		case *ssa.IndexAddr:
			if c, ok := core.ConstInt(x.Index); ok && int(c) == k {
				found = true
			}
		case *ssa.Call:
			if bi, ok := x.Call.Value.(*ssa.Builtin); ok && bi.Name() == "len" {
				return
			}
			for _, a := range x.Call.Args {
				walk(a)
			}
		}
	}
	walk(v)
	return found
}

// ---------------------------------------------------------------------------------------------- R3

func c13ISO(p *core.Program, r *core.Report, envs *ssa.Package, seqs map[string]string, envStrs map[string]string, envLists map[string][]string) {
	stripFrac := func(s string) string { return regexp.MustCompile(`\.[09]+`).ReplaceAllString(s, "") }
	// datetime
	var renderLayout string
	if f := p.SSA.ImportedPackage(gocommonDates); f != nil {
		if fn := f.Func("FormatISO"); fn != nil {
			for _, cs := range core.Calls(fn, false) {
				if o := core.CalleeObj(cs.Common()); o != nil && core.ObjName(o) == "time.Time.Format" {
					renderLayout, _ = core.ConstString(cs.Common().Args[1])
				}
			}
		}
	}
	if renderLayout == "" {
		r.Errorf("dates.FormatISO: layout constant not found")
		return
	}
	render := p.Method("excellent/types", "XDateTime", "Render")
	usesISO := false
	if render != nil {
		for _, cs := range core.Calls(render, false) {
			if o := core.CalleeObj(cs.Common()); o != nil && core.ObjName(o) == gocommonDates+".FormatISO" {
				usesISO = true
			}
		}
	}
	r.Check(usesISO, "R3", "XDateTime.Render/uses-FormatISO", "excellent/types/datetime.go", "renders with dates.FormatISO ("+renderLayout+")", "XDateTime.Render no longer renders with dates.FormatISO")
	isoFormats := envLists["isoFormats"]
	found := false
	for _, l := range isoFormats {
		if l == stripFrac(renderLayout) {
			found = true
		}
	}
	r.Check(found, "R3", "isoFormats/contains-render-layout", "envs/dates.go", "isoFormats "+fmt.Sprint(isoFormats)+" has the render layout without its fraction (Go parses a fraction after the seconds field)",
		"XDateTime.Render writes "+renderLayout+" but DateTimeFromString tries only "+fmt.Sprint(isoFormats))
	// date
	if gc := p.ByPkg[gocommonDates]; gc != nil {
		s, _ := pkgStrings(gc)
		dl, ok := s["ISO8601Date"]
		if !ok {
			r.Unknown("R3", "dates.ISO8601Date", "gocommon/dates", "constant not found")
		} else {
			inst, _ := referenceInstance(dl, seqs)
			r.Check(inst == envStrs["iso8601DateOnlyFormat"], "R3", "iso8601DateOnlyFormat/is-render-layout", "envs/dates.go", "Date.String renders "+dl+" = "+inst+", the layout parseDate tries first",
				"Date.String renders "+dl+" ("+inst+") but parseDate first tries "+envStrs["iso8601DateOnlyFormat"])
		}
	}
	// order: ISO before environment format
	if f := envs.Func("DateTimeFromString"); f != nil {
		var iso, env ssa.Instruction
		for _, ec := range core.EffectiveCalls(f, 2) {
			o := core.CalleeObj(ec.Inner.Common())
			if o == nil {
				continue
			}
			switch core.ObjName(o) {
			case "time.ParseInLocation":
				// the ISO attempt, here or in a helper this function calls (then the helper's call stands for it)
				if iso == nil && (len(ec.Chain) == 0 || !strings.HasSuffix(core.FuncName(ec.Chain[len(ec.Chain)-1]), "parseDate")) {
					iso = ec.Outer
				}
			case "envs.parseDate":
				if len(ec.Chain) == 0 {
					env = ec.Outer
				}
			}
		}
		okOrder := false
		if iso != nil && env != nil {
			// the ISO attempt sits in the loop over isoFormats: its loop header must dominate the environment parse, and
			// the ISO attempt must not be reachable again from there
			var header *ssa.BasicBlock
			for _, b := range f.Blocks {
				for _, sc := range b.Succs {
					if sc.Dominates(b) && sc.Dominates(iso.Block()) && (header == nil || header.Dominates(sc)) {
						header = sc
					}
				}
			}
			if header == nil {
				header = iso.Block()
			}
			okOrder = header.Dominates(env.Block()) && !core.Reachable(env.Block(), nil)[iso.Block()]
		}
		r.Check(okOrder, "R3", "DateTimeFromString/iso-first", p.Pos(f.Pos()), "the ISO layouts are tried before the environment's format", "DateTimeFromString does not try the ISO layouts before the environment's date format")
	}
	if f := envs.Func("parseDate"); f != nil {
		var iso ssa.Instruction
		okOrder := true
		n := 0
		for _, cs := range core.Calls(f, false) {
			o := core.CalleeObj(cs.Common())
			if o == nil {
				continue
			}
			switch core.ObjName(o) {
			case "time.ParseInLocation":
				iso = cs.Instr
			case "envs.dateFromFormats":
				n++
				if iso == nil || !core.InstrDominates(iso, cs.Instr) {
					okOrder = false
				}
			}
		}
		r.Check(okOrder && n > 0, "R3", "parseDate/iso-first", p.Pos(f.Pos()), "the ISO date layout is tried before the environment's format", "parseDate does not try the ISO date layout before the environment's date format")
	}
}

// ---------------------------------------------------------------------------------------------- R4

func c13LayoutFormat(p *core.Program, r *core.Report) {
	n := 0
	for _, fn := range p.ModuleFunctions() {
		rel := core.RelPkg(core.FuncPkgPath(fn))
		if rel != "envs" && rel != "excellent/types" && rel != "excellent/functions" && rel != "utils" {
			continue
		}
		for _, cs := range core.Calls(fn, false) {
			o := core.CalleeObj(cs.Common())
			if o == nil || (core.ObjName(o) != "time.Parse" && core.ObjName(o) != "time.ParseInLocation") {
				continue
			}
			layout, ok := core.ConstString(cs.Common().Args[0])
			if !ok {
				continue
			}
			sp, ok := cs.Common().Args[1].(*ssa.Call)
			if !ok {
				continue
			}
			if so := core.CalleeObj(&sp.Call); so == nil || core.ObjName(so) != "fmt.Sprintf" {
				continue
			}
			format, ok := core.ConstString(sp.Call.Args[0])
			if !ok {
				continue
			}
			n++
			construct := fn.Name() + "/time.Parse(" + layout + ")"
			sep := regexp.MustCompile(`[-/:. T]`)
			lparts, fparts := sep.Split(layout, -1), sep.Split(format, -1)
			if len(lparts) != len(fparts) {
				r.Bad("R4", construct, p.Pos(cs.Pos()), "layout "+layout+" and format "+format+" have a different number of components")
				continue
			}
			var bad []string
			for i := range lparts {
				want := map[string]string{"2006": "%04d", "01": "%02d", "02": "%02d", "15": "%02d", "04": "%02d", "05": "%02d", "1": "%d", "2": "%d", "3": "%d", "4": "%d", "5": "%d", "06": "%02d"}[lparts[i]]
				if want == "" {
					bad = append(bad, "layout component "+lparts[i]+" is not understood")
				} else if fparts[i] != want {
					bad = append(bad, lparts[i]+" is written with "+fparts[i]+" but needs "+want)
				}
			}
			r.Check(len(bad) == 0, "R4", construct, p.Pos(cs.Pos()), "written with "+format, "the text parsed with layout "+layout+" is written with "+format+": "+strings.Join(bad, "; ")+" — values with fewer digits are rejected (a year below 1000 makes every date in it unparseable)")
		}
	}
	r.Count("sprintf_then_parse_sites", n)
	c13ValidityComponents(p, r)
}

// c13ValidityComponents: a function that builds a date from numbers it read out of text (dates.NewDate(y, m, d) with
// non-constant components) and checks first that the three are valid together (time.Parse of a Sprintf of them, or
// time.Date(...)) must check the very numbers it builds the date from: a check done with another year decides leap
// days by the wrong year, and text that Format produced is rejected.
func c13ValidityComponents(p *core.Program, r *core.Report) {
	sites := 0
	for _, fn := range p.ModuleFunctions() {
		if core.RelPkg(core.FuncPkgPath(fn)) != "envs" {
			continue
		}
		var built [][]ssa.Value
		for _, cs := range core.Calls(fn, false) {
			if o := core.CalleeObj(cs.Common()); o != nil && strings.HasSuffix(core.ObjName(o), "dates.NewDate") && len(cs.Common().Args) == 3 {
				if _, isConst := cs.Common().Args[0].(*ssa.Const); !isConst {
					built = append(built, cs.Common().Args)
				}
			}
		}
		if len(built) == 0 {
			continue
		}
		same := func(a, b ssa.Value) bool { return core.StripConv(a) == core.StripConv(b) }
		checks := 0
		for _, cs := range core.Calls(fn, false) {
			o := core.CalleeObj(cs.Common())
			if o == nil {
				continue
			}
			var y ssa.Value
			switch core.ObjName(o) {
			case "time.Date":
				y = cs.Common().Args[0]
			case "time.Parse", "time.ParseInLocation":
				if sp, ok := cs.Common().Args[1].(*ssa.Call); ok {
					if so := core.CalleeObj(&sp.Call); so != nil && core.ObjName(so) == "fmt.Sprintf" {
						if vs := core.VariadicArgs(sp.Call.Args[len(sp.Call.Args)-1]); len(vs) > 0 {
							y = vs[0]
							if mi, ok := y.(*ssa.MakeInterface); ok {
								y = mi.X
							}
						}
					}
				}
			}
			if y == nil {
				continue
			}
			if _, isConst := y.(*ssa.Const); isConst {
				continue
			}
			checks++
			okYear := false
			for _, b := range built {
				if same(y, b[0]) {
					okYear = true
				}
			}
			r.Check(okYear, "R4", fn.Name()+"/validity-check-uses-the-year-it-builds", p.Pos(cs.Pos()), "the year checked is the year of the date returned", "the day/month/year validity check in "+fn.Name()+" is done with a different year than the date it then builds: leap days are decided by the wrong year, so a 29 February that Format writes is not read back")
		}
		sites += checks
	}
	r.Count("date_validity_checks", sites)
	r.Require("date_validity_checks", sites, 1)
	c13TimeBounds(p, r)
}

// c13TimeBounds: what the formatter can write the parser must accept: where a function of envs builds a time of day
// from parsed numbers (dates.NewTimeOfDay(h, m, s, n)) under range tests of those numbers, the tests let every value
// through that a rendering can contain — hours up to 23, minutes and seconds up to 59.
func c13TimeBounds(p *core.Program, r *core.Report) {
	maxOf := []int64{23, 59, 59}
	name := []string{"hour", "minute", "second"}
	n := 0
	for _, fn := range p.ModuleFunctions() {
		if core.RelPkg(core.FuncPkgPath(fn)) != "envs" {
			continue
		}
		for _, cs := range core.Calls(fn, false) {
			o := core.CalleeObj(cs.Common())
			if o == nil || !strings.HasSuffix(core.ObjName(o), "dates.NewTimeOfDay") || len(cs.Common().Args) < 3 {
				continue
			}
			for i := 0; i < 3; i++ {
				v := core.StripConv(cs.Common().Args[i])
				if _, isConst := v.(*ssa.Const); isConst {
					continue
				}
				for _, ce := range core.ControllingConds(cs.Instr.Block()) {
					bo, ok := ce.Cond.(*ssa.BinOp)
					if !ok || core.StripConv(bo.X) != v {
						continue
					}
					k, isC := core.ConstInt(bo.Y)
					if !isC {
						continue
					}
					// the largest value the edge taken lets through (upper bounds only)
					var upTo int64 = -1
					switch {
					case bo.Op == token.GTR && !ce.Taken, bo.Op == token.LEQ && ce.Taken:
						upTo = k
					case bo.Op == token.GEQ && !ce.Taken, bo.Op == token.LSS && ce.Taken:
						upTo = k - 1
					default:
						continue
					}
					n++
					r.Check(upTo >= maxOf[i], "R4", fmt.Sprintf("%s/%s-accepted-up-to-%d", fn.Name(), name[i], maxOf[i]), p.Pos(bo.Pos()), fmt.Sprintf("values up to %d pass", upTo),
						fmt.Sprintf("%s accepts the %s of a time only up to %d: a rendered time can contain %d, so that rendering is not read back", fn.Name(), name[i], upTo, maxOf[i]))
				}
			}
		}
	}
	r.Count("time_component_upper_bounds", n)
}

// ---------------------------------------------------------------------------------------------- R5

func c13Numbers(p *core.Program, r *core.Report, typesPkg *ssa.Package) {
	render := p.Method("excellent/types", "XNumber", "Render")
	nfs := typesPkg.Func("newXNumberFromString")
	if render == nil || nfs == nil {
		r.Errorf("anchors XNumber.Render / newXNumberFromString not found")
		return
	}
	usesString := false
	for _, ret := range core.Returns(render) {
		if c, ok := ret.Results[0].(*ssa.Call); ok {
			if o := core.CalleeObj(&c.Call); o != nil && core.ObjName(o) == "github.com/shopspring/decimal.Decimal.String" {
				usesString = true
			}
		}
	}
	r.Check(usesString, "R5", "XNumber.Render/decimal.String", p.Pos(render.Pos()), "the canonical text is decimal.String(): plain digits, no exponent, full precision", "XNumber.Render is not decimal.Decimal.String(): the canonical text may round or use an exponent")
	// gates in newXNumberFromString
	ref, _ := rxCompile(`^-?[0-9]+(\.[0-9]+)?$`)
	gates := 0
	for _, cs := range core.Calls(nfs, false) {
		o := core.CalleeObj(cs.Common())
		if o == nil || core.ObjName(o) != "regexp.Regexp.MatchString" {
			continue
		}
		gates++
		g := loadedGlobal(cs.Common().Args[0])
		pat, ok := "", false
		if g != nil {
			pat, ok = globalPattern(p, g)
		}
		if !ok {
			r.Unknown("R5", "newXNumberFromString/gate", p.Pos(cs.Pos()), "the gating regexp is not a constant")
			continue
		}
		gate, err := rxCompile(pat)
		if err != nil {
			r.Unknown("R5", "newXNumberFromString/gate "+g.Name(), p.Pos(cs.Pos()), err.Error())
			continue
		}
		inc, w := rxIncludes(gate, ref)
		r.Check(inc, "R5", "newXNumberFromString/gate "+g.Name()+" accepts every rendering", p.Pos(cs.Pos()), pat+" ⊇ -?[0-9]+(\\.[0-9]+)?",
			g.Name()+" = "+pat+" rejects `"+w+"`, which XNumber.Render can produce: that number does not survive its text form")
	}
	r.Require("number_gates", gates, 1)
	conv := false
	for _, cs := range core.Calls(nfs, false) {
		if o := core.CalleeObj(cs.Common()); o != nil && strings.HasPrefix(core.ObjName(o), "github.com/shopspring/decimal.") && strings.HasSuffix(core.ObjName(o), "FromString") {
			conv = true
		}
	}
	r.Check(conv, "R5", "newXNumberFromString/decimal-parser", p.Pos(nfs.Pos()), "parsed by shopspring/decimal (exact)", "newXNumberFromString does not parse with shopspring/decimal's exact parser")
	// ToXNumber text arm
	if f := typesPkg.Func("ToXNumber"); f != nil {
		uses := false
		for _, cs := range core.Calls(f, false) {
			if cs.Common().StaticCallee() == nfs {
				uses = true
			}
		}
		r.Check(uses, "R5", "ToXNumber/text-arm", p.Pos(f.Pos()), "text converts through newXNumberFromString", "ToXNumber no longer converts text through newXNumberFromString")
	}
	c13NoFloatDetour(p, r)
}

// c13FloatDetours: calls that push a number through binary floating point (at most 15–17 significant digits, no 1e400).
var c13FloatDetours = map[string]string{
	"github.com/shopspring/decimal.NewFromFloat":             "decimal from float64",
	"github.com/shopspring/decimal.NewFromFloat32":           "decimal from float32",
	"github.com/shopspring/decimal.NewFromFloatWithExponent": "decimal from float64",
	"github.com/shopspring/decimal.Decimal.Float64":          "decimal to float64",
	"github.com/shopspring/decimal.Decimal.InexactFloat64":   "decimal to float64",
	"strconv.ParseFloat":                                     "text to float64",
	"github.com/buger/jsonparser.ParseFloat":                 "JSON number to float64",
	"github.com/buger/jsonparser.GetFloat":                   "JSON number to float64",
	"encoding/json.Number.Float64":                           "JSON number to float64",
}

// c13NoFloatDetour: in the packages that read, convert and write values (excellent/types, excellent/functions,
// excellent/operators, envs, flows, utils/jsonx) no number takes a detour through float64: every call of a float
// conversion has a constant operand. A float64 keeps 15–17 significant digits, so 12345678901234567890 read from a
// JSON document or a stored field would come back as 12345678901234567000.
func c13NoFloatDetour(p *core.Program, r *core.Report) {
	scope := map[string]bool{"excellent/types": true, "excellent/functions": true, "excellent/operators": true, "excellent": true, "envs": true, "flows": true, "utils/jsonx": true}
	nDecimal, per := 0, map[string]int{}
	for _, fn := range p.ModuleFunctions() {
		if !scope[core.RelPkg(core.FuncPkgPath(fn))] || p.IsTestFile(fn.Pos()) || fn.Synthetic != "" {
			continue
		}
		for _, cs := range core.Calls(fn, false) {
			o := core.CalleeObj(cs.Common())
			if o == nil {
				continue
			}
			name := core.ObjName(o)
			if strings.HasPrefix(name, "github.com/shopspring/decimal.") {
				nDecimal++
			}
			what, isDetour := c13FloatDetours[name]
			if !isDetour {
				continue
			}
			allConst := len(cs.Common().Args) > 0
			for _, a := range cs.Common().Args {
				if _, isC := core.StripConv(a).(*ssa.Const); !isC {
					allConst = false
				}
			}
			k := core.FuncName(fn) + "->" + name
			per[k]++
			key := "no-float-detour/" + k
			if per[k] > 1 {
				key = fmt.Sprintf("%s#%d", key, per[k])
			}
			r.Check(allConst, "R5", key, p.Pos(cs.Pos()), what+" of a constant", "a value goes "+what+" in "+core.FuncName(fn)+": binary floating point keeps 15–17 significant digits and no exponent beyond ±308, so a number with more digits (12345678901234567890, 0.1234567890123456789, 1e400) does not survive its stored text or JSON form")
		}
	}
	r.Count("decimal_api_call_sites", nDecimal)
	r.Require("decimal_api_call_sites", nDecimal, 20)
}

// ---------------------------------------------------------------------------------------------- R6

func c13JSON(p *core.Program, r *core.Report, typesPkg *ssa.Package) {
	fn := typesPkg.Func("jsonTypeToXValue")
	if fn == nil {
		r.Errorf("anchor jsonTypeToXValue not found")
		return
	}
	jp := p.ByPkg["github.com/buger/jsonparser"]
	if jp == nil {
		r.Errorf("github.com/buger/jsonparser not loaded")
		return
	}
	names := map[int64]string{}
	sc := jp.Types.Scope()
	for _, nm := range sc.Names() {
		if c, ok := sc.Lookup(nm).(*types.Const); ok {
			if n, ok := c.Type().(*types.Named); ok && n.Obj().Name() == "ValueType" {
				k, _ := constant.Int64Val(c.Val())
				names[k] = nm
			}
		}
	}
	want := map[string]string{"String": "XText", "Number": "XNumber", "Boolean": "XBoolean", "Array": "XArray", "Object": "XObject", "Null": "nil"}
	got := map[string]string{}
	// the value type parameter of a function, and the parameter of a helper of the package it is handed on to
	vtParamOf := func(f *ssa.Function) *ssa.Parameter {
		var vt *ssa.Parameter
		for _, prm := range f.Params {
			if strings.HasSuffix(core.ShortType(prm.Type()), "ValueType") {
				vt = prm
			}
		}
		return vt
	}
	helperOf := func(from *ssa.Function, call *ssa.Call, vt *ssa.Parameter) (*ssa.Function, *ssa.Parameter) {
		cf := call.Call.StaticCallee()
		if cf == nil || len(cf.Blocks) == 0 || core.FuncPkgPath(cf) != core.FuncPkgPath(from) {
			return nil, nil
		}
		var cvt *ssa.Parameter
		if vt != nil {
			for i, a := range call.Call.Args {
				if a == ssa.Value(vt) && i < len(cf.Params) {
					cvt = cf.Params[i]
				}
			}
		}
		return cf, cvt
	}
	// a test of the value type against one constant: the constant and the successor taken when they are equal
	vtTest := func(b *ssa.BasicBlock, vt *ssa.Parameter) (int64, *ssa.BasicBlock, bool) {
		iff, ok := b.Instrs[len(b.Instrs)-1].(*ssa.If)
		if !ok || vt == nil {
			return 0, nil, false
		}
		bo, ok := iff.Cond.(*ssa.BinOp)
		if !ok || (bo.Op != token.EQL && bo.Op != token.NEQ) {
			return 0, nil, false
		}
		var other ssa.Value
		if bo.X == ssa.Value(vt) {
			other = bo.Y
		} else if bo.Y == ssa.Value(vt) {
			other = bo.X
		} else {
			return 0, nil, false
		}
		k, ok := core.ConstInt(other)
		if !ok {
			return 0, nil, false
		}
		if bo.Op == token.EQL {
			return k, b.Succs[0], true
		}
		return k, b.Succs[1], true
	}
	// the code that runs for a JSON number: the blocks under the test for Number, and in the helpers of the package
	// the value type is handed on to from there, the blocks under their own test for Number
	type vtRegion struct {
		fn     *ssa.Function
		blocks []*ssa.BasicBlock
	}
	var numberRegions []vtRegion
	var regionsOf func(f *ssa.Function, vt *ssa.Parameter, top bool, depth int, seen map[*ssa.Function]bool)
	regionsOf = func(f *ssa.Function, vt *ssa.Parameter, top bool, depth int, seen map[*ssa.Function]bool) {
		var arm []*ssa.BasicBlock
		tested := false
		for _, b := range f.Blocks {
			k, body, ok := vtTest(b, vt)
			if !ok || names[k] != "Number" {
				continue
			}
			tested = true
			for _, d := range f.Blocks {
				if body.Dominates(d) {
					arm = append(arm, d)
				}
			}
		}
		if !tested {
			if top {
				return
			}
			arm = f.Blocks
		}
		numberRegions = append(numberRegions, vtRegion{f, arm})
		for _, b := range arm {
			for _, in := range b.Instrs {
				call, ok := in.(*ssa.Call)
				if !ok {
					continue
				}
				if cf, cvt := helperOf(f, call, vt); cf != nil && cvt != nil && depth < 3 && !seen[cf] {
					seen[cf] = true
					regionsOf(cf, cvt, false, depth+1, seen)
				}
			}
		}
	}
	regionsOf(fn, vtParamOf(fn), true, 0, map[*ssa.Function]bool{fn: true})
	// the X type returned for each value type: every way out of the function with the tests on the value type decided
	// for that type (early returns in the arms, or one exit with a result variable); a result taken from a helper of the
	// package is followed into the helper, the value type bound to the helper's parameter
	var returnedFor func(f *ssa.Function, vt *ssa.Parameter, k int64, okWanted core.AB, depth int) []string
	returnedFor = func(f *ssa.Function, vt *ssa.Parameter, k int64, okWanted core.AB, depth int) []string {
		var out []string
		core.ExplorePaths(f, core.PathRules{
			OnBranch: func(s *core.PathState, cond ssa.Value) core.AB {
				bo, ok := cond.(*ssa.BinOp)
				if !ok || (bo.Op != token.EQL && bo.Op != token.NEQ) || vt == nil {
					return core.Unk
				}
				var other ssa.Value
				if bo.X == ssa.Value(vt) {
					other = bo.Y
				} else if bo.Y == ssa.Value(vt) {
					other = bo.X
				} else {
					return core.Unk
				}
				c, ok := core.ConstInt(other)
				if !ok {
					return core.Unk
				}
				return boolAB((c == k) == (bo.Op == token.EQL))
			},
			OnExit: func(s *core.PathState, ret *ssa.Return, pan *ssa.Panic) {
				if ret == nil || len(ret.Results) == 0 {
					return
				}
				resolve := func(v ssa.Value) ssa.Value {
					for i := 0; i < 4; i++ {
						phi, ok := v.(*ssa.Phi)
						if !ok {
							break
						}
						in := pathIncoming(s, phi)
						if in == nil {
							break
						}
						v = in
					}
					return v
				}
				// a (value, ok) helper: the exits whose ok is the constant the caller's path excludes do not count
				if okWanted != core.Unk && len(ret.Results) == 2 {
					if c, ok := resolve(ret.Results[1]).(*ssa.Const); ok && c.Value != nil && c.Value.Kind() == constant.Bool {
						if boolAB(constant.BoolVal(c.Value)) != okWanted {
							return
						}
					}
				}
				v := resolve(ret.Results[0])
				var call *ssa.Call
				if ex, ok := v.(*ssa.Extract); ok && ex.Index == 0 {
					call, _ = ex.Tuple.(*ssa.Call)
				} else if c, ok := v.(*ssa.Call); ok {
					call = c
				}
				if call != nil && depth < 3 {
					if cf, cvt := helperOf(f, call, vt); cf != nil && cvt != nil {
						okv := core.Unk
						if cf.Signature.Results().Len() == 2 && call.Referrers() != nil {
							for _, rf := range *call.Referrers() {
								if ex, ok := rf.(*ssa.Extract); ok && ex.Index == 1 {
									okv = s.Val(ex)
								}
							}
						}
						out = append(out, returnedFor(cf, cvt, k, okv, depth+1)...)
						return
					}
				}
				t := "?"
				if core.IsNilConst(v) {
					t = "nil"
				} else if mi, ok := v.(*ssa.MakeInterface); ok {
					t = strings.TrimPrefix(core.ShortType(mi.X.Type()), "*")
					t = t[strings.LastIndex(t, ".")+1:]
				}
				if t == "XError" {
					return
				}
				out = append(out, t)
			},
		})
		return out
	}
	for k, nm := range names {
		for _, t := range returnedFor(fn, vtParamOf(fn), k, core.Unk, 0) {
			if got[nm] != "" && got[nm] != t && !strings.Contains("|"+got[nm]+"|", "|"+t+"|") {
				t = got[nm] + "|" + t
			} else if got[nm] != "" {
				t = got[nm]
			}
			got[nm] = t
		}
	}
	for _, nm := range core.SortedKeys(want) {
		r.Check(got[nm] == want[nm], "R6", "jsonTypeToXValue/"+nm, p.Pos(fn.Pos()), "JSON "+nm+" -> "+want[nm], "a JSON "+nm+" becomes "+got[nm]+" (expected "+want[nm]+"): written back with json() it is not the value that was read")
	}
	// no gate narrower than the JSON number grammar in the Number arm (following calls inside the package)
	if len(numberRegions) > 0 {
		ref, _ := rxCompile(`^-?(0|[1-9][0-9]*)(\.[0-9]+)?([eE][-+]?[0-9]+)?$`)
		gates := 0
		seen := map[*ssa.Function]bool{}
		for _, rg := range numberRegions {
			seen[rg.fn] = true
		}
		var scan func(f *ssa.Function, blocks []*ssa.BasicBlock, depth int)
		scan = func(f *ssa.Function, blocks []*ssa.BasicBlock, depth int) {
			for _, b := range blocks {
				for _, in := range b.Instrs {
					call, ok := in.(*ssa.Call)
					if !ok {
						continue
					}
					o := core.CalleeObj(&call.Call)
					if o != nil && core.ObjName(o) == "regexp.Regexp.MatchString" {
						gates++
						g := loadedGlobal(call.Call.Args[0])
						pat, ok := "", false
						if g != nil {
							pat, ok = globalPattern(p, g)
						}
						if !ok {
							r.Unknown("R6", "jsonTypeToXValue/Number/gate", p.Pos(call.Pos()), "a non-constant regexp gates JSON numbers")
							continue
						}
						gate, err := rxCompile(pat)
						if err != nil {
							r.Unknown("R6", "jsonTypeToXValue/Number/gate "+g.Name(), p.Pos(call.Pos()), err.Error())
							continue
						}
						inc, w := rxIncludes(gate, ref)
						r.Check(inc, "R6", "jsonTypeToXValue/Number/gate "+g.Name(), p.Pos(call.Pos()), "accepts the JSON number grammar",
							"JSON numbers pass through "+g.Name()+" = "+pat+", which rejects the valid JSON number `"+w+"`: parse_json turns it into an error instead of a number")
					}
					if cf := call.Call.StaticCallee(); cf != nil && depth < 3 && !seen[cf] && core.RelPkg(core.FuncPkgPath(cf)) == "excellent/types" && strings.Contains(strings.ToLower(cf.Name()), "number") {
						seen[cf] = true
						scan(cf, cf.Blocks, depth+1)
					}
				}
			}
		}
		var arm []*ssa.BasicBlock
		for _, rg := range numberRegions {
			arm = append(arm, rg.blocks...)
			scan(rg.fn, rg.blocks, 0)
		}
		if gates == 0 {
			r.OK("R6", "jsonTypeToXValue/Number/no-narrow-gate", p.Pos(fn.Pos()), "no regexp gate between the JSON number and its decimal")
		}
		// the converter
		conv := ""
		for _, b := range arm {
			for _, in := range b.Instrs {
				if call, ok := in.(*ssa.Call); ok {
					if o := core.CalleeObj(&call.Call); o != nil && strings.HasPrefix(core.ObjName(o), "github.com/shopspring/decimal.") {
						conv = core.ObjName(o)
					}
				}
			}
		}
		if gates == 0 {
			r.Check(conv != "", "R6", "jsonTypeToXValue/Number/decimal-parser", p.Pos(fn.Pos()), "parsed by "+conv+" (accepts exponents)", "JSON numbers are not parsed by shopspring/decimal")
		}
	}
	// decimals marshal without quotes
	okQuotes := false
	for _, m := range typesPkg.Members {
		f, ok := m.(*ssa.Function)
		if !ok || !strings.HasPrefix(f.Name(), "init") {
			continue
		}
		for _, b := range f.Blocks {
			for _, in := range b.Instrs {
				if st, ok := in.(*ssa.Store); ok {
					if g, ok := st.Addr.(*ssa.Global); ok && g.Name() == "MarshalJSONWithoutQuotes" {
						if c, ok := st.Val.(*ssa.Const); ok && c.Value != nil && constant.BoolVal(c.Value) {
							okQuotes = true
						}
					}
				}
			}
		}
	}
	r.Check(okQuotes, "R6", "decimal.MarshalJSONWithoutQuotes", "excellent/types/number.go", "set to true in init", "decimal.MarshalJSONWithoutQuotes is not set: json(1.5) would be the string \"1.5\", not the number")
	// one zone per rendering: a method of XDateTime that converts its receiver with In(...) takes every component it
	// prints (Date(), Time(), Native(), Format...) from the converted value, never from the receiver itself
	if dt := p.NamedType("excellent/types", "XDateTime"); dt != nil {
		ms := p.SSA.MethodSets.MethodSet(types.NewPointer(dt))
		nConv := 0
		for i := 0; i < ms.Len(); i++ {
			fn := p.SSA.MethodValue(ms.At(i))
			if fn == nil || fn.Blocks == nil || len(fn.Params) == 0 || fn.Name() == "In" {
				continue
			}
			recv := fn.Params[0]
			converts := false
			var unconverted []string
			for _, cs := range core.Calls(fn, false) {
				g := cs.Common().StaticCallee()
				if g == nil || len(cs.Common().Args) == 0 || cs.Common().Args[0] != ssa.Value(recv) {
					continue
				}
				switch g.Name() {
				case "In":
					converts = true
				case "Date", "Time", "Native", "Format", "FormatCustom", "Render":
					unconverted = append(unconverted, g.Name()+"() at "+p.Pos(cs.Pos()))
				}
			}
			if !converts {
				continue
			}
			nConv++
			r.Check(len(unconverted) == 0, "R3", "XDateTime."+fn.Name()+"/one-zone", p.Pos(fn.Pos()), "every component comes from the value converted with In(...)",
				"XDateTime."+fn.Name()+" converts the value to a timezone with In(...) but also takes "+strings.Join(unconverted, ", ")+" from the unconverted receiver: date and time of one rendering come from two zones, and the text parses back a day off for instants near midnight")
		}
		r.Count("datetime_methods_converting_zone", nConv)
	}
	// every XValue implementation marshals itself
	if iface := p.Interface("excellent/types", "XValue"); iface != nil {
		n := 0
		for _, named := range p.Implementers(iface) {
			if core.RelPkg(named.Obj().Pkg().Path()) != "excellent/types" {
				continue
			}
			n++
			m := p.Method("excellent/types", named.Obj().Name(), "MarshalJSON")
			r.Check(m != nil, "R6", named.Obj().Name()+"/MarshalJSON", p.Pos(named.Obj().Pos()), "has its own MarshalJSON", named.Obj().Name()+" has no MarshalJSON: json() falls back to reflection over unexported fields")
		}
		r.Require("xvalue_types", n, 9)
	}
	// text goes through the JSON encoder: Go's quoting (strconv.Quote, %q) writes \a, \v, \xNN, \UXXXXXXXX, which JSON
	// does not know; the document written back is then no JSON at all
	if m := p.Method("excellent/types", "XText", "MarshalJSON"); m != nil {
		okEnc, goQuote := false, ""
		for _, ret := range core.Returns(m) {
			for v := range core.BackSlice(ret.Results[0], func(*ssa.Call) bool { return true }) {
				c, ok := v.(*ssa.Call)
				if !ok {
					continue
				}
				if o := core.CalleeObj(&c.Call); o != nil {
					switch n := core.ObjName(o); {
					case strings.HasSuffix(n, "jsonx.Marshal") || n == "encoding/json.Marshal":
						okEnc = true
					case n == "strconv.Quote" || n == "strconv.QuoteToASCII" || n == "fmt.Sprintf":
						goQuote = n
					}
				}
			}
		}
		r.Check(okEnc && goQuote == "", "R6", "XText.MarshalJSON/json-encoder", p.Pos(m.Pos()), "the text is written by the JSON encoder", "XText.MarshalJSON writes the text with "+goQuote+" instead of the JSON encoder: control characters come out as Go escapes that are not JSON, ToXJSON fails and the object/array marshalers drop the member")
	} else {
		r.Errorf("XText.MarshalJSON not found")
	}
	// array and object marshalers: one ToXJSON per element, stored under the element's own index/key
	for _, tn := range []string{"XArray", "XObject"} {
		m := p.Method("excellent/types", tn, "MarshalJSON")
		if m == nil {
			continue
		}
		inLoop := false
		// the conversion may be written in the loop or in a helper of the package the loop calls
		for _, ec := range core.EffectiveCalls(m, 1) {
			if cf := ec.Inner.Common().StaticCallee(); cf != nil && cf.Name() == "ToXJSON" {
				at := ec.Outer.Block()
				// in a loop: some block it can reach dominates it
				for _, b := range m.Blocks {
					for _, sc := range b.Succs {
						if sc.Dominates(b) && sc.Dominates(at) {
							inLoop = true
						}
					}
				}
			}
		}
		r.Check(inLoop, "R6", tn+".MarshalJSON/each-element", p.Pos(m.Pos()), "converts each element with ToXJSON inside the loop over its values", tn+".MarshalJSON does not convert each element with ToXJSON")
	}
}

// ---------------------------------------------------------------------------------------------- R7

func c13Equal(p *core.Program, r *core.Report) {
	ops := p.SSAPkg("excellent/operators")
	if ops == nil {
		r.Errorf("excellent/operators not loaded")
		return
	}
	tb := ops.Func("textualBinary")
	initFn := ops.Func("init")
	if tb == nil || initFn == nil {
		r.Errorf("anchor operators.textualBinary not found")
		return
	}
	// textualBinary's closure converts both arguments with ToXText before calling f
	n := 0
	for _, an := range tb.AnonFuncs {
		for _, cs := range core.Calls(an, false) {
			if o := core.CalleeObj(cs.Common()); o != nil && core.ObjName(o) == "excellent/types.ToXText" {
				if pr, ok := cs.Common().Args[1].(*ssa.Parameter); ok && (pr == an.Params[1] || pr == an.Params[2]) {
					n++
				}
			}
		}
	}
	r.Check(n == 2, "R7", "textualBinary/converts-both-operands", p.Pos(tb.Pos()), "both operands go through ToXText", fmt.Sprintf("textualBinary converts %d of its 2 operands with ToXText", n))
	if f := p.Func("excellent/types", "ToXText"); f != nil {
		viaRender := false
		for _, cs := range core.Calls(f, false) {
			if cs.Common().IsInvoke() && cs.Common().Method.Name() == "Render" {
				viaRender = true
			}
		}
		r.Check(viaRender, "R7", "ToXText/renders", p.Pos(f.Pos()), "text(x) is x.Render()", "ToXText does not convert through Render()")
	}
	// Equal / NotEqual: stored from textualBinary(closure)
	shape := map[string]string{}
	for _, b := range initFn.Blocks {
		for _, in := range b.Instrs {
			st, ok := in.(*ssa.Store)
			if !ok {
				continue
			}
			g, ok := st.Addr.(*ssa.Global)
			if !ok || (g.Name() != "Equal" && g.Name() != "NotEqual") {
				continue
			}
			call, ok := st.Val.(*ssa.Call)
			if !ok || call.Call.StaticCallee() != tb {
				shape[g.Name()] = "not built by textualBinary"
				continue
			}
			cl, _ := core.StripConv(call.Call.Args[0]).(*ssa.Function)
			if cl == nil {
				if mc, ok := core.StripConv(call.Call.Args[0]).(*ssa.MakeClosure); ok {
					cl, _ = mc.Fn.(*ssa.Function)
				}
			}
			if cl == nil {
				shape[g.Name()] = "closure not found"
				continue
			}
			// NewXBoolean(arg) where arg is text1.Equals(text2) or its negation
			desc := "?"
			for _, cs := range core.Calls(cl, false) {
				if cf := cs.Common().StaticCallee(); cf != nil && cf.Name() == "NewXBoolean" {
					arg := cs.Common().Args[0]
					neg := false
					if un, ok := arg.(*ssa.UnOp); ok && un.Op == token.NOT {
						neg = true
						arg = un.X
					}
					if ec, ok := arg.(*ssa.Call); ok {
						if o := core.CalleeObj(&ec.Call); o != nil && core.ObjName(o) == "excellent/types.XText.Equals" {
							a0, _ := ec.Call.Args[0].(*ssa.Parameter)
							a1, _ := stripIface(ec.Call.Args[1]).(*ssa.Parameter)
							if a0 != nil && a1 != nil && a0 != a1 {
								desc = "Equals(text1,text2)"
								if neg {
									desc = "!" + desc
								}
							}
						}
					}
				}
			}
			shape[g.Name()] = desc
		}
	}
	r.Check(shape["Equal"] == "Equals(text1,text2)", "R7", "operators.Equal", "excellent/operators/builtin.go", "text1.Equals(text2)", "Equal is "+shape["Equal"])
	r.Check(shape["NotEqual"] == "!Equals(text1,text2)", "R7", "operators.NotEqual", "excellent/operators/builtin.go", "!text1.Equals(text2)", "NotEqual is "+shape["NotEqual"]+", not the negation of Equal")
	if f := p.Method("excellent/types", "XText", "Equals"); f != nil {
		okEq := false
		for _, ret := range core.Returns(f) {
			if bo, ok := ret.Results[0].(*ssa.BinOp); ok && bo.Op == token.EQL && isStringType(bo.X.Type()) {
				okEq = true
			}
		}
		r.Check(okEq, "R7", "XText.Equals", p.Pos(f.Pos()), "string equality of the native values", "XText.Equals is not plain string equality")
	}
	_ = sort.Strings
}
