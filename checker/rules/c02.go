package rules

import (
	"fmt"
	"go/token"
	"go/types"
	"reflect"
	"sort"
	"strings"

	"golang.org/x/tools/go/ssa"

	"verif/checker/core"
)

func init() { register("C02", checkC02) }

var c02Pkgs = []string{"flows/engine", "flows/runs", "flows", "flows/triggers", "flows/inputs", "envs"}

// fields that are deliberately not persisted, with the reason a restart cannot be observed through them
var c02Transient = map[string]string{
	"flows/engine.session.currentResume": "set by tryToResume before anything reads it in the same call (C10/R2 shows the store is dominated by the accept edge and precedes resume.Apply); never read across calls",
	"flows/engine.session.pushedFlow":    "set by an action and consumed (reset to nil) by the engine loop within the same sprint; nil whenever an engine call returns",
	"flows/engine.session.parentRun":     "re-derived from the trigger's run summary by prepareForSprint at the start of every engine call (R3 checks the call dominates start and Resume)",
}

// types with a MarshalJSON that are not part of the persisted session
var c02ExcludedTypes = map[string]string{
	"flows.WebhookCall": "run.webhook is the deliberately transient last-webhook value the property exempts (@webhook); it is rebuilt from the run's events by lastWebhookSavedAsExtra on read, and its MarshalJSON only serves the expression context",
}

func isMarshalName(n string) bool { return n == "MarshalJSON" || n == "marshal" }
func isReadName(n string) bool {
	return n == "UnmarshalJSON" || n == "unmarshal" || strings.HasPrefix(n, "read") || strings.HasPrefix(n, "Read")
}

type c02Type struct {
	named   *types.Named
	fields  []*types.Var
	written map[*types.Var]string // field -> marshal function that reads it
	read    map[*types.Var]string // field -> read function that stores it
	marshal []*ssa.Function
}

func checkC02(p *core.Program, r *core.Report) {
	r.Rule("R1", "field coverage: for every struct in the engine/runs/flows/triggers/inputs packages that has a MarshalJSON (or marshal helper), each field is written by the marshal side and restored by the read side, or re-derived on the read side, or listed as transient with the reason a restart cannot be observed through it; a field that is written but never restored, or neither and unlisted, is a violation")
	r.Rule("R2", "one envelope: marshal and read of a type use the same envelope struct, and every envelope field is both stored by the marshal side and loaded by the read side")
	r.Rule("R3", "re-derived transient state is rebuilt on every entry: the function that re-derives session.parentRun dominates the loop/resume call in both start and Resume")
	r.Rule("R4", "registry symmetry: in the trigger, resume, input, event, modifier, wait and hint packages the name a struct type is registered under for reading is the type name its constructors write into it")
	typeRegistrySymmetry(p, r, "R4", func(rel string) bool {
		return strings.HasPrefix(rel, "flows/triggers") || strings.HasPrefix(rel, "flows/resumes") || strings.HasPrefix(rel, "flows/inputs") || strings.HasPrefix(rel, "flows/events") || strings.HasPrefix(rel, "flows/modifiers") || strings.HasPrefix(rel, "flows/routers/waits")
	})
	r.Require("type_registries", r.Analysed["type_registries"], 6)
	r.Rule("R5", "what the engine writes the reader accepts: an event field tagged validate:\"required\" is fed evaluated (possibly empty) text only under an emptiness test on the very value that is written")
	c02R5(p, r)
	r.Rule("R9", "what the engine writes the reader accepts, for run state: a text field of a persisted struct of flows, flows/runs or flows/engine that carries a validate constraint beyond required/omitempty is never fed — through its constructor's parameter, followed two call levels up, except under a constant regexp gate whose language lies inside the constraint's (decided on automata) — from run-time text (a translation looked up with Run.GetText*/GetItemTranslation, an evaluated template, the text of an incoming message): such text is not constrained where it is written, so a session the engine has written could not be read back")
	c02R9(p, r)
	r.Rule("R10", "what is written is everything: in the MarshalJSON methods (and the same-package helpers they call) of the persisted types of flows, flows/runs and flows/engine no list held by the receiver is re-sliced (x[a:b]) before it is written — a run path or an event list cut to its most recent part reads back shorter than the live one, and @node.visit_count, the path and FindStep differ after a restart")
	c02R10(p, r)
	r.Assumption("equality of behaviour of the restored session is not decided; encoding/json round-trips exported, tagged fields of plain structs")

	pkgSet := map[string]bool{}
	for _, k := range c02Pkgs {
		pkgSet[k] = true
	}
	typesByName := map[string]*c02Type{}
	get := func(n *types.Named) *c02Type {
		k := core.QualName(n)
		if t, ok := typesByName[k]; ok {
			return t
		}
		st, ok := n.Underlying().(*types.Struct)
		if !ok {
			return nil
		}
		t := &c02Type{named: n, written: map[*types.Var]string{}, read: map[*types.Var]string{}}
		for i := 0; i < st.NumFields(); i++ {
			t.fields = append(t.fields, st.Field(i))
		}
		typesByName[k] = t
		return t
	}
	fieldOwner := func(v ssa.Value) (*types.Named, *types.Var) {
		fa, ok := v.(*ssa.FieldAddr)
		if !ok {
			return nil, nil
		}
		xt := fa.X.Type()
		if pt, ok := xt.Underlying().(*types.Pointer); ok {
			xt = pt.Elem()
		}
		n, ok := xt.(*types.Named)
		if !ok {
			return nil, nil
		}
		return n, core.FieldAddrVar(fa)
	}
	var fns []*ssa.Function
	for _, fn := range p.ModuleFunctions() {
		if pkgSet[core.RelPkg(core.FuncPkgPath(fn))] && !p.IsTestFile(fn.Pos()) {
			fns = append(fns, fn)
		}
	}
	// marshal side: methods named MarshalJSON / marshal; the receiver's (and embedded bases') fields they load
	for _, fn := range fns {
		root := rootFn(fn)
		if !isMarshalName(root.Name()) || root.Signature.Recv() == nil {
			continue
		}
		rn := recvNamed(root)
		if rn == nil {
			continue
		}
		t := get(rn)
		if t == nil {
			continue
		}
		if fn == root {
			t.marshal = append(t.marshal, root)
		}
		core.EachInstr(fn, false, func(_ *ssa.Function, in ssa.Instruction) {
			fa, ok := in.(*ssa.FieldAddr)
			if !ok {
				return
			}
			n, fv := fieldOwner(fa)
			if n == nil || !pkgSet[core.RelPkg(n.Obj().Pkg().Path())] {
				return
			}
			// loaded (not stored)
			loaded := false
			for _, ref := range *fa.Referrers() {
				if u, ok := ref.(*ssa.UnOp); ok && u.X == ssa.Value(fa) {
					loaded = true
				}
				if _, ok := ref.(*ssa.FieldAddr); ok {
					loaded = true
				}
				if c, ok := ref.(ssa.CallInstruction); ok {
					_ = c
					loaded = true // address passed to a call (method on the field / marshal of it)
				}
			}
			if !loaded {
				return
			}
			if tt := get(n); tt != nil {
				if _, dup := tt.written[fv]; !dup {
					tt.written[fv] = core.FuncName(root)
				}
			}
		})
	}
	// read side: read-named functions and the same-package helpers they call (addRun, setters ...), two levels deep
	readFns := map[*ssa.Function]string{}
	callersOf := map[*ssa.Function][]*ssa.Function{}
	for _, cs := range p.AllCalls() {
		if p.IsTestFile(cs.Pos()) {
			continue
		}
		if g := cs.Common().StaticCallee(); g != nil {
			callersOf[g] = append(callersOf[g], rootFn(cs.Caller))
		}
	}
	// passesDecodedData: some argument of the call derives from the caller's parameters or locals (the decoded form);
	// a call like NewBuilder().Build() that is fed nothing restores nothing
	passesDecodedData := func(cs core.CallSite) bool {
		for _, a := range cs.Common().Args {
			for v := range core.BackSlice(a, func(*ssa.Call) bool { return true }) {
				switch x := v.(type) {
				case *ssa.Parameter:
					return true
				case *ssa.Alloc:
					_ = x
					return true
				}
			}
		}
		return false
	}
	var onlyCalledFromRead func(f *ssa.Function) bool
	onlyCalledFromRead = func(f *ssa.Function) bool {
		cl := callersOf[f]
		if len(cl) == 0 {
			return false
		}
		for _, c := range cl {
			if c == f {
				continue
			}
			if _, inRead := readFns[c]; !inRead && !isReadName(c.Name()) {
				return false
			}
		}
		return true
	}
	readDepth := map[*ssa.Function]int{}
	var addRead func(fn *ssa.Function, root string, depth int)
	addRead = func(fn *ssa.Function, root string, depth int) {
		if fn != nil && fn.Parent() == nil && isReadName(fn.Name()) {
			depth = 0 // a read function is a root of the read side however it was reached
		}
		if fn == nil || fn.Blocks == nil || depth > 2 {
			return
		}
		// reached again by a shorter chain: explore again (the result must not depend on the order of visits)
		if d, ok := readDepth[fn]; ok && d <= depth {
			return
		}
		readDepth[fn] = depth
		if _, ok := readFns[fn]; !ok {
			readFns[fn] = root
		}
		for _, an := range fn.AnonFuncs {
			addRead(an, root, depth)
		}
		for _, cs := range core.Calls(fn, false) {
			if f := cs.Common().StaticCallee(); f != nil && pkgSet[core.RelPkg(core.FuncPkgPath(f))] && !isMarshalName(f.Name()) {
				// a helper belongs to the read side only when nothing but the read side calls it: a general-purpose
				// constructor (a builder that fills in defaults) restores nothing from the persisted form
				if !isReadName(f.Name()) && !onlyCalledFromRead(f) && !passesDecodedData(cs) {
					continue
				}
				addRead(f, root, depth+1)
			}
		}
	}
	for _, fn := range fns {
		if fn.Parent() == nil && isReadName(fn.Name()) {
			addRead(fn, core.FuncName(fn), 0)
		}
	}
	var readList []*ssa.Function
	for f := range readFns {
		readList = append(readList, f)
	}
	sort.Slice(readList, func(i, j int) bool { return readList[i].Pos() < readList[j].Pos() })
	for _, fn := range readList {
		root := rootFn(fn)
		rootName := readFns[fn]
		_ = root
		core.EachInstr(fn, false, func(_ *ssa.Function, in ssa.Instruction) {
			st, ok := in.(*ssa.Store)
			if !ok {
				return
			}
			n, fv := fieldOwner(st.Addr)
			if n == nil || n.Obj().Pkg() == nil || !pkgSet[core.RelPkg(n.Obj().Pkg().Path())] {
				return
			}
			if tt := get(n); tt != nil {
				if _, dup := tt.read[fv]; !dup {
					tt.read[fv] = rootName
				}
			}
		})
	}
	var keys []string
	outputOnly := []string{}
	for k, t := range typesByName {
		if len(t.marshal) == 0 {
			continue
		}
		if reason, ex := c02ExcludedTypes[k]; ex {
			r.OK("R1", k+"/excluded", p.Pos(t.named.Obj().Pos()), reason)
			continue
		}
		if len(t.read) == 0 {
			outputOnly = append(outputOnly, k) // marshalled for the caller (sprint segments, webhook traces), never read back
			continue
		}
		keys = append(keys, k)
	}
	sort.Strings(outputOnly)
	r.Tables["output_only_types"] = outputOnly
	sort.Strings(keys)
	r.Require("persisted_struct_types", len(keys), 10)
	nFields := 0
	for _, k := range keys {
		t := typesByName[k]
		for _, f := range t.fields {
			nFields++
			key := k + "." + f.Name()
			w, isW := t.written[f]
			rd, isR := t.read[f]
			switch {
			case f.Embedded():
				r.OK("R1", key, p.Pos(f.Pos()), "embedded base (its own fields are judged on the base type)")
			case isW && isR:
				r.OK("R1", key, p.Pos(f.Pos()), "written by "+w+", restored by "+rd)
			case !isW && isR:
				r.OK("R1", key, p.Pos(f.Pos()), "re-derived on read by "+rd)
			default:
				if reason, ok := c02Transient[key]; ok {
					r.OK("R1", key, p.Pos(f.Pos()), "transient: "+reason)
				} else if isW {
					r.Bad("R1", key, p.Pos(f.Pos()), "field is written by "+w+" but no read function restores it: it is lost by a restart (marshal -> read -> marshal is not a fixed point)")
				} else {
					r.Bad("R1", key, p.Pos(f.Pos()), "field is neither persisted nor re-derived on read and is not listed as transient: a restored object differs from the live one")
				}
			}
		}
	}
	r.Count("persisted_fields", nFields)
	_ = fmt.Sprint

	// ---- R6 what the reader may leave unset, the writer tolerates
	r.Rule("R7", "a reference the engine writes is a reference the reader accepts: the reference to an asset (assets.<X>Reference, persisted in events, tickets and runs) is built from the asset without validation and validated when read back, so the `validate` tag on its UUID accepts every UUID the asset's own definition (assets/static) accepts for the same UUID type — `uuid4` on the reference against `uuid` on the asset makes a session that used such an asset unreadable")
	c02R7(p, r)
	r.Rule("R8", "reading back never indexes out of range: the index obligations over the engine packages — among them flows/engine and flows/runs, which hold the session, run and legacy-context readers — are obligations here too (imported from C05/R7): a persisted session the live one continues from must not panic its reader")
	importObligations(p, r, "C05", map[string]bool{"R7": true}, "R8", "the persisted session cannot be read back (the reader panics) although the live session carries on")
	r.Rule("R6", "reader and writer agree on what may be absent: a pointer field that the read side stores only under a presence test is dereferenced by the marshal side only under a nil test (otherwise a restored object cannot be persisted again)")
	{
		condStore := map[*types.Var]string{}
		uncondStore := map[*types.Var]bool{}
		for _, fn := range readList {
			core.EachInstr(fn, false, func(_ *ssa.Function, in ssa.Instruction) {
				st, ok := in.(*ssa.Store)
				if !ok {
					return
				}
				n, fv := fieldOwner(st.Addr)
				if n == nil || fv == nil {
					return
				}
				if _, isPtr := fv.Type().Underlying().(*types.Pointer); !isPtr {
					return
				}
				presence := ""
				for _, ce := range core.ControllingConds(st.Block()) {
					bo, ok := ce.Cond.(*ssa.BinOp)
					if !ok || (bo.Op != token.EQL && bo.Op != token.NEQ) {
						continue
					}
					// error checks do not count: a failed read returns no object at all
					isErr := func(v ssa.Value) bool { return core.ShortType(v.Type()) == "error" }
					if isErr(bo.X) || isErr(bo.Y) {
						continue
					}
					presence = canonShort(bo) + " at " + p.Pos(ce.If.Pos())
				}
				if presence != "" {
					condStore[fv] = presence
				} else {
					uncondStore[fv] = true
				}
			})
		}
		nR6 := 0
		for _, k := range keys {
			t := typesByName[k]
			for _, f := range t.fields {
				why, conditional := condStore[f]
				if !conditional || uncondStore[f] {
					continue
				}
				for _, m := range t.marshal {
					core.EachInstr(m, false, func(_ *ssa.Function, in ssa.Instruction) {
						ci, ok := in.(ssa.CallInstruction)
						if !ok {
							return
						}
						com := ci.Common()
						var recv ssa.Value
						if com.IsInvoke() {
							recv = com.Value
						} else if g := com.StaticCallee(); g != nil && g.Signature.Recv() != nil && len(com.Args) > 0 {
							recv = com.Args[0]
						}
						ld, ok := recv.(*ssa.UnOp)
						if !ok || core.FieldAddrVar(ld.X) != f {
							return
						}
						if g := com.StaticCallee(); g != nil && c02NilSafeMethod(g) {
							return // the method itself starts with `if recv == nil`
						}
						nR6++
						r.Check(xNilGuard(in.Block(), recv) != "", "R6", k+"."+f.Name()+"/writer-tolerates-absent", p.Pos(in.Pos()), "dereferenced under a nil test",
							fmt.Sprintf("the read side sets %s.%s only under %s, but %s calls a method on it without a nil test: marshalling an object that was read back without that member panics (marshal -> read -> marshal is not even defined)", k, f.Name(), why, core.FuncName(m)))
					})
				}
			}
		}
		r.Count("conditionally_restored_pointer_derefs", nR6)
	}
	c02R2R3(p, r, fns, pkgSet, readFns)
}

func c02R2R3(p *core.Program, r *core.Report, fns []*ssa.Function, pkgSet map[string]bool, readFns map[*ssa.Function]string) {
	// ---- R2 envelope symmetry
	type env struct {
		named  *types.Named
		stored map[*types.Var]string
		loaded map[*types.Var]string
	}
	envs := map[string]*env{}
	getEnv := func(v ssa.Value) (*env, *types.Var) {
		fa, ok := v.(*ssa.FieldAddr)
		if !ok {
			return nil, nil
		}
		xt := fa.X.Type()
		if pt, ok := xt.Underlying().(*types.Pointer); ok {
			xt = pt.Elem()
		}
		n, ok := xt.(*types.Named)
		if !ok || n.Obj().Pkg() == nil || !pkgSet[core.RelPkg(n.Obj().Pkg().Path())] {
			return nil, nil
		}
		if !strings.HasSuffix(n.Obj().Name(), "Envelope") && !strings.HasSuffix(n.Obj().Name(), "envelope") {
			return nil, nil
		}
		k := core.QualName(n)
		e, ok := envs[k]
		if !ok {
			e = &env{named: n, stored: map[*types.Var]string{}, loaded: map[*types.Var]string{}}
			envs[k] = e
		}
		return e, core.FieldAddrVar(fa)
	}
	for _, fn := range fns {
		root := rootFn(fn)
		marshalSide := isMarshalName(root.Name())
		_, readSide := readFns[fn]
		if !marshalSide && !readSide {
			continue
		}
		core.EachInstr(fn, false, func(_ *ssa.Function, in ssa.Instruction) {
			fa, ok := in.(*ssa.FieldAddr)
			if !ok {
				return
			}
			e, fv := getEnv(fa)
			if e == nil {
				return
			}
			for _, ref := range *fa.Referrers() {
				switch x := ref.(type) {
				case *ssa.Store:
					if x.Addr == ssa.Value(fa) && marshalSide {
						e.stored[fv] = core.FuncName(root)
					}
				case *ssa.UnOp:
					if readSide {
						e.loaded[fv] = core.FuncName(root)
					}
				default:
					// address used by a call (jsonx.Marshal into it / method on it) or nested field access
					if marshalSide {
						e.stored[fv] = core.FuncName(root)
					}
					if readSide {
						e.loaded[fv] = core.FuncName(root)
					}
				}
			}
		})
	}
	nE := 0
	for _, k := range core.SortedKeys(envs) {
		e := envs[k]
		st := e.named.Underlying().(*types.Struct)
		if len(e.stored) == 0 || len(e.loaded) == 0 {
			continue // used on one side only (input-only or output-only envelope)
		}
		for i := 0; i < st.NumFields(); i++ {
			f := st.Field(i)
			if f.Embedded() {
				continue
			}
			nE++
			key := k + "." + f.Name()
			_, isS := e.stored[f]
			_, isL := e.loaded[f]
			switch {
			case isS && isL:
				r.OK("R2", key, p.Pos(f.Pos()), "stored by "+e.stored[f]+", loaded by "+e.loaded[f])
			case isS:
				r.Bad("R2", key, p.Pos(f.Pos()), "envelope member is written by "+e.stored[f]+" but never read back: what it carries is lost by a restart")
			case isL:
				r.Bad("R2", key, p.Pos(f.Pos()), "envelope member is read by "+e.loaded[f]+" but never written: the restored object gets a zero value where the live one has data")
			default:
				r.OK("R2", key, p.Pos(f.Pos()), "member is neither written nor read (tolerated in input for backwards compatibility, carries no state)")
			}
		}
	}
	r.Require("envelope_fields", nE, 40)

	// ---- R3
	e := resolveEngine(p, r)
	if e == nil {
		return
	}
	prep := p.Method("flows/engine", "session", "prepareForSprint")
	if prep == nil {
		r.Errorf("session.prepareForSprint not found")
		return
	}
	// it (re)derives parentRun
	derives := false
	core.EachInstr(prep, false, func(_ *ssa.Function, in ssa.Instruction) {
		if st, ok := in.(*ssa.Store); ok {
			if o, f := ownerOfFieldAddr(st.Addr); o == "flows/engine.session" && f == "parentRun" {
				derives = true
			}
		}
	})
	r.Check(derives, "R3", "prepareForSprint/derives-parentRun", p.Pos(prep.Pos()), "stores session.parentRun", "prepareForSprint no longer re-derives the parent run summary")
	for _, ent := range []struct {
		fn     *ssa.Function
		target *ssa.Function
		label  string
	}{{e.start, e.loop, "start"}, {e.resume, e.tryResume, "Resume"}} {
		var prepCall, targetCall ssa.Instruction
		for _, cs := range core.Calls(ent.fn, false) {
			switch cs.Common().StaticCallee() {
			case prep:
				prepCall = cs.Instr
			case ent.target:
				targetCall = cs.Instr
			}
		}
		ok := prepCall != nil && targetCall != nil && core.InstrDominates(prepCall, targetCall)
		r.Check(ok, "R3", ent.label+"/prepareForSprint-first", p.Pos(ent.fn.Pos()), "prepareForSprint dominates the call that runs the flow",
			"the transient parent run is not re-derived before the flow runs: a restored flow_action-triggered session evaluates @parent as null while the kept-alive one does not")
	}
	// every reader of parentRun is reached only after prepareForSprint: readers are the getter only
	pr := p.FieldOf("flows/engine", "session", "parentRun")
	if pr != nil {
		for _, fn := range fns {
			core.EachInstr(fn, false, func(f *ssa.Function, in ssa.Instruction) {
				fa, ok := in.(*ssa.FieldAddr)
				if !ok || core.FieldAddrVar(fa) != pr {
					return
				}
				n := rootFn(f).Name()
				r.Check(n == "ParentRun" || n == "prepareForSprint", "R3", core.FuncName(rootFn(f))+"->session.parentRun", p.Pos(in.Pos()), "accessor / deriver", "session.parentRun is accessed outside its accessor and prepareForSprint")
			})
		}
	}
}

// c02R5: what the engine writes, the reader accepts. An event field tagged validate:"required" is rejected by ReadRun
// when empty, so a value that comes out of template evaluation (which can be empty for some contact) may only be
// passed to that field under an emptiness test on that very value — not on an earlier form of it that is trimmed or
// rewritten afterwards.
func c02R5(p *core.Program, r *core.Report) {
	ev := p.SSAPkg("flows/events")
	evPk := p.Pkg("flows/events")
	if ev == nil || evPk == nil {
		r.Errorf("flows/events not loaded")
		return
	}
	// constructor parameter -> required string field
	type reqParam struct {
		idx   int
		field string
	}
	ctors := map[*ssa.Function][]reqParam{}
	for _, m := range ev.Members {
		fn, ok := m.(*ssa.Function)
		if !ok || !strings.HasPrefix(fn.Name(), "New") || len(fn.Blocks) == 0 {
			continue
		}
		core.EachInstr(fn, false, func(_ *ssa.Function, in ssa.Instruction) {
			st, ok := in.(*ssa.Store)
			if !ok {
				return
			}
			n, fv := c02FieldOwner(st.Addr)
			if n == nil || fv == nil || !isStringType(fv.Type()) {
				return
			}
			stt, ok := n.Underlying().(*types.Struct)
			if !ok {
				return
			}
			for i := 0; i < stt.NumFields(); i++ {
				if stt.Field(i) != fv {
					continue
				}
				tag := reflect.StructTag(stt.Tag(i))
				if !strings.Contains(","+tag.Get("validate")+",", ",required,") {
					return
				}
				prm, ok := core.StripConv(st.Val).(*ssa.Parameter)
				if !ok {
					return
				}
				for k, fp := range fn.Params {
					if fp == prm {
						ctors[fn] = append(ctors[fn], reqParam{k, fv.Name()})
					}
				}
			}
		})
	}
	n := 0
	per := map[string]int{}
	for fn, rps := range ctors {
		for _, cs := range p.CallsTo(fn) {
			if p.IsTestFile(cs.Pos()) || cs.Common().StaticCallee() != fn {
				continue
			}
			for _, rp := range rps {
				if rp.idx >= len(cs.Common().Args) {
					continue
				}
				a := cs.Common().Args[rp.idx]
				evaluated := false
				for v := range core.BackSlice(a, func(*ssa.Call) bool { return true }) {
					if c, ok := v.(*ssa.Call); ok {
						if o := core.CalleeObj(&c.Call); o != nil && strings.HasPrefix(core.ObjName(o), "flows.Run.EvaluateTemplate") {
							evaluated = true
						}
					}
				}
				if !evaluated {
					continue
				}
				n++
				same := core.BackSlice(a, nil) // conversions and phis only: the same text
				guarded := false
				for _, ce := range core.ControllingConds(cs.Instr.Block()) {
					bo, ok := ce.Cond.(*ssa.BinOp)
					if !ok || (bo.Op != token.EQL && bo.Op != token.NEQ) {
						continue
					}
					var v ssa.Value
					if s, ok := core.ConstString(bo.Y); ok && s == "" {
						v = bo.X
					} else if s, ok := core.ConstString(bo.X); ok && s == "" {
						v = bo.Y
					}
					if v == nil || (bo.Op == token.NEQ) != ce.Taken {
						continue
					}
					if v == a || same[v] {
						guarded = true
					}
				}
				// the value is the result of a validating parser whose error was checked (ParsePhone and the like)
				for v := range same {
					ex, ok := v.(*ssa.Extract)
					if !ok || ex.Index != 0 {
						continue
					}
					call, ok := ex.Tuple.(*ssa.Call)
					if !ok {
						continue
					}
					for _, ce := range core.ControllingConds(cs.Instr.Block()) {
						bo, ok := ce.Cond.(*ssa.BinOp)
						if !ok || !(core.IsNilConst(bo.X) || core.IsNilConst(bo.Y)) {
							continue
						}
						other := bo.X
						if core.IsNilConst(bo.X) {
							other = bo.Y
						}
						if e2, ok := other.(*ssa.Extract); ok && e2.Tuple == ssa.Value(call) && e2.Index > 0 && ((bo.Op == token.EQL) == ce.Taken) {
							guarded = true
						}
					}
				}
				key := core.FuncName(cs.Caller) + "/" + fn.Name() + "." + rp.field
				per[key]++
				if per[key] > 1 {
					key = fmt.Sprintf("%s#%d", key, per[key])
				}
				r.Check(guarded, "R5", key, p.Pos(cs.Pos()), "non-empty test on the value that is written",
					"the required event field "+rp.field+" is written from evaluated text without an emptiness test on that very value (a test on an earlier form that is trimmed or rewritten afterwards does not count): for a contact for whom it comes out blank the event is logged empty and ReadSession later rejects the run (field is required)")
			}
		}
	}
	r.Count("evaluated_required_event_fields", n)
	r.Require("evaluated_required_event_fields", n, 1)
}

// c02R10: marshal functions write whole lists.
func c02R10(p *core.Program, r *core.Report) {
	scope := map[string]bool{"flows": true, "flows/runs": true, "flows/engine": true}
	n := 0
	for _, fn := range p.ModuleFunctions() {
		if fn.Name() != "MarshalJSON" || !scope[core.RelPkg(core.FuncPkgPath(fn))] || p.IsTestFile(fn.Pos()) || fn.Synthetic != "" || len(fn.Params) == 0 {
			continue
		}
		n++
		bad := ""
		for _, h := range append([]*ssa.Function{fn}, helpersOf(fn)...) {
			core.EachInstr(h, false, func(_ *ssa.Function, in ssa.Instruction) {
				sl, ok := in.(*ssa.Slice)
				if !ok || (sl.Low == nil && sl.High == nil) {
					return
				}
				if _, isSl := sl.X.Type().Underlying().(*types.Slice); !isSl {
					return
				}
				for v := range core.BackSlice(sl.X, nil) {
					if u, ok := v.(*ssa.UnOp); ok && u.Op == token.MUL {
						if fa, ok := u.X.(*ssa.FieldAddr); ok && len(h.Params) > 0 && fa.X == ssa.Value(h.Params[0]) {
							o, f := ownerOfFieldAddr(fa)
							bad = "the list " + o + "." + f + " is cut (" + p.Pos(sl.Pos()) + ") before it is written"
						}
					}
				}
			})
		}
		r.Check(bad == "", "R10", core.FuncName(fn)+"/writes-whole-lists", p.Pos(fn.Pos()), "no list of the receiver is re-sliced", bad+": the restored object holds less than the live one")
	}
	r.Count("marshal_methods_scanned", n)
	r.Require("marshal_methods_scanned", n, 8)
}

// helpersOf: the same-package functions fn calls statically with its own receiver as receiver.
func helpersOf(fn *ssa.Function) []*ssa.Function {
	var out []*ssa.Function
	for _, cs := range core.Calls(fn, false) {
		g := cs.Common().StaticCallee()
		if g == nil || g.Blocks == nil || g == fn || core.FuncPkgPath(g) != core.FuncPkgPath(fn) || len(cs.Common().Args) == 0 || len(fn.Params) == 0 {
			continue
		}
		if cs.Common().Args[0] == ssa.Value(fn.Params[0]) {
			out = append(out, g)
		}
	}
	return out
}

// c02ConstraintPatterns: what a validator tag admits, as a regular expression (go-playground/validator's own).
var c02ConstraintPatterns = map[string]string{
	"uuid4": `^[0-9a-f]{8}-[0-9a-f]{4}-4[0-9a-f]{3}-[89ab][0-9a-f]{3}-[0-9a-f]{12}$`,
}

// c02R9: constrained text fields of persisted run state are not fed from run-time text.
func c02R9(p *core.Program, r *core.Report) {
	scope := map[string]bool{"flows": true, "flows/runs": true, "flows/engine": true}
	constrained := map[*types.Var]string{}
	owner := map[*types.Var]string{}
	nTagged := 0
	for rel := range scope {
		pk := p.Pkg(rel)
		if pk == nil {
			continue
		}
		sc := pk.Types.Scope()
		for _, nm := range sc.Names() {
			tn, ok := sc.Lookup(nm).(*types.TypeName)
			if !ok {
				continue
			}
			st, ok := tn.Type().Underlying().(*types.Struct)
			if !ok {
				continue
			}
			for i := 0; i < st.NumFields(); i++ {
				tag := reflect.StructTag(st.Tag(i))
				v := tag.Get("validate")
				if v == "" || tag.Get("json") == "" {
					continue
				}
				nTagged++
				if !isStringType(st.Field(i).Type()) {
					continue
				}
				var extra []string
				for _, c := range strings.Split(v, ",") {
					if c != "" && c != "required" && c != "omitempty" && c != "dive" {
						extra = append(extra, c)
					}
				}
				if len(extra) > 0 {
					constrained[st.Field(i)] = strings.Join(extra, ",")
					owner[st.Field(i)] = tn.Name()
				}
			}
		}
	}
	r.Count("validated_persisted_fields", nTagged)
	r.Require("validated_persisted_fields", nTagged, 10)
	isRuntimeText := func(c *ssa.Call) string {
		o := core.CalleeObj(&c.Call)
		if o == nil {
			return ""
		}
		n := core.ObjName(o)
		switch {
		case strings.HasPrefix(n, "flows.Run.GetText"), strings.HasPrefix(n, "flows.Run.GetTranslatedTextArray"), strings.HasPrefix(n, "flows.Run.EvaluateTemplate"),
			strings.HasPrefix(n, "flows.Localization.GetItemTranslation"), n == "flows.MsgIn.Text":
			return n
		}
		return ""
	}
	// which text reaches parameter k of fn, looking through the callers' own parameters (two levels)
	// gated: the call is made only when a constant regexp, whose language lies inside what the constraint admits,
	// matched the very text that is passed (conversions aside)
	gated := func(cs core.CallSite, arg ssa.Value, constraint string) bool {
		refPat, known := c02ConstraintPatterns[constraint]
		if !known {
			return false
		}
		ref, err := rxCompile(refPat)
		if err != nil {
			return false
		}
		same := core.BackSlice(arg, nil)
		for _, ce := range core.ControllingConds(cs.Instr.Block()) {
			call, ok := ce.Cond.(*ssa.Call)
			if !ok || !ce.Taken {
				continue
			}
			o := core.CalleeObj(&call.Call)
			if o == nil || core.ObjName(o) != "regexp.Regexp.MatchString" || len(call.Call.Args) < 2 || !same[call.Call.Args[1]] {
				continue
			}
			g := loadedGlobal(call.Call.Args[0])
			if g == nil {
				continue
			}
			pat, ok := globalPattern(p, g)
			if !ok {
				continue
			}
			gate, err := rxCompile(pat)
			if err != nil {
				continue
			}
			if inc, _ := rxIncludes(ref, gate); inc {
				return true
			}
		}
		return false
	}
	var fedBy func(fn *ssa.Function, k int, depth int, constraint string) string
	fedBy = func(fn *ssa.Function, k int, depth int, constraint string) string {
		for _, cs := range p.CallsTo(fn) {
			if p.IsTestFile(cs.Pos()) || cs.Common().StaticCallee() != fn || k >= len(cs.Common().Args) {
				continue
			}
			if gated(cs, cs.Common().Args[k], constraint) {
				continue
			}
			for v := range core.BackSlice(cs.Common().Args[k], func(*ssa.Call) bool { return true }) {
				switch x := v.(type) {
				case *ssa.Call:
					if src := isRuntimeText(x); src != "" {
						return src + " (" + p.Pos(x.Pos()) + ")"
					}
				case *ssa.Parameter:
					if depth < 2 && x.Parent() != nil {
						for j, fp := range x.Parent().Params {
							if fp == x {
								if src := fedBy(x.Parent(), j, depth+1, constraint); src != "" {
									return src
								}
							}
						}
					}
				}
			}
		}
		return ""
	}
	fields := map[*types.Var]string{}
	for _, fn := range p.ModuleFunctions() {
		if p.IsTestFile(fn.Pos()) || fn.Synthetic != "" {
			continue
		}
		core.EachInstr(fn, false, func(_ *ssa.Function, in ssa.Instruction) {
			st, ok := in.(*ssa.Store)
			if !ok {
				return
			}
			_, fv := c02FieldOwner(st.Addr)
			if fv == nil || constrained[fv] == "" {
				return
			}
			if _, seen := fields[fv]; !seen {
				fields[fv] = ""
			}
			prm, ok := core.StripConv(st.Val).(*ssa.Parameter)
			if !ok {
				return
			}
			for k, fp := range fn.Params {
				if fp == prm && fields[fv] == "" {
					fields[fv] = fedBy(fn, k, 0, constrained[fv])
				}
			}
		})
	}
	for fv, c := range constrained {
		src, written := fields[fv]
		if !written {
			continue // only ever read from JSON
		}
		key := owner[fv] + "." + fv.Name() + "/constraint-" + c + "/not-fed-run-time-text"
		r.Check(src == "", "R9", key, p.Pos(fv.Pos()), "no run-time text reaches the field", owner[fv]+"."+fv.Name()+" must satisfy `"+c+"` when a run is read back, but the engine stores text from "+src+" in it without that constraint: a session written at a wait cannot be read again")
	}
}

func c02FieldOwner(v ssa.Value) (*types.Named, *types.Var) {
	fa, ok := v.(*ssa.FieldAddr)
	if !ok {
		return nil, nil
	}
	xt := fa.X.Type()
	if pt, ok := xt.Underlying().(*types.Pointer); ok {
		xt = pt.Elem()
	}
	n, ok := xt.(*types.Named)
	if !ok {
		return nil, nil
	}
	return n, core.FieldAddrVar(fa)
}

// c02NilSafeMethod: every use of the pointer receiver inside g that dereferences it lies under a nil test of the receiver.
func c02NilSafeMethod(g *ssa.Function) bool {
	if g == nil || g.Blocks == nil || len(g.Params) == 0 || g.Signature.Recv() == nil {
		return false
	}
	recv := g.Params[0]
	if _, isPtr := recv.Type().Underlying().(*types.Pointer); !isPtr {
		return false
	}
	safe := true
	core.EachInstr(g, false, func(_ *ssa.Function, in ssa.Instruction) {
		deref := false
		switch x := in.(type) {
		case *ssa.FieldAddr:
			deref = x.X == ssa.Value(recv)
		case *ssa.UnOp:
			deref = x.X == ssa.Value(recv)
		case ssa.CallInstruction:
			com := x.Common()
			if !com.IsInvoke() && len(com.Args) > 0 && com.Args[0] == ssa.Value(recv) {
				if h := com.StaticCallee(); h != nil && h != g && !c02NilSafeMethod(h) {
					deref = true
				}
			}
		}
		if deref && xNilGuard(in.Block(), recv) == "" {
			safe = false
		}
	})
	return safe
}

// ---------------------------------------------------------------------------------------------- R7

func c02R7(p *core.Program, r *core.Report) {
	uuidRule := func(tag string) string {
		for _, part := range strings.Split(reflect.StructTag(tag).Get("validate"), ",") {
			if strings.HasPrefix(part, "uuid") {
				return part
			}
		}
		return ""
	}
	// strictness: "" (anything) < uuid (any version) < uuidN (one version)
	accepts := func(reader, writer string) bool {
		switch {
		case reader == "" || reader == writer:
			return true
		case reader == "uuid":
			return strings.HasPrefix(writer, "uuid")
		}
		return false
	}
	type site struct {
		owner, rule string
		pos         token.Pos
	}
	collect := func(rel string) map[string][]site {
		out := map[string][]site{}
		pk := p.Pkg(rel)
		if pk == nil {
			return out
		}
		sc := pk.Types.Scope()
		for _, name := range sc.Names() {
			tn, ok := sc.Lookup(name).(*types.TypeName)
			if !ok {
				continue
			}
			st, ok := tn.Type().Underlying().(*types.Struct)
			if !ok {
				continue
			}
			for i := 0; i < st.NumFields(); i++ {
				f := st.Field(i)
				n, ok := f.Type().(*types.Named)
				if !ok || !strings.HasSuffix(n.Obj().Name(), "UUID") || n.Obj().Pkg() == nil {
					continue
				}
				if jn := strings.Split(reflect.StructTag(st.Tag(i)).Get("json"), ",")[0]; jn != "uuid" {
					continue
				}
				out[n.Obj().Pkg().Name()+"."+n.Obj().Name()] = append(out[n.Obj().Pkg().Name()+"."+n.Obj().Name()], site{name, uuidRule(st.Tag(i)), f.Pos()})
			}
		}
		return out
	}
	refs, defs := collect("assets"), collect("assets/static")
	n := 0
	for _, t := range core.SortedKeys(refs) {
		for _, ref := range refs[t] {
			for _, def := range defs[t] {
				n++
				r.Check(accepts(ref.rule, def.rule), "R7", "assets."+ref.owner+".UUID~static."+def.owner, p.Pos(ref.pos), "reference: "+ref.rule+", asset: "+def.rule,
					fmt.Sprintf("assets.%s validates its UUID as %q but the asset it refers to (static.%s) is accepted with %q: a reference the engine builds from such an asset and persists (event, ticket, run) is rejected when the session is read back", ref.owner, ref.rule, def.owner, def.rule))
			}
		}
	}
	r.Count("reference_asset_uuid_pairs", n)
	r.Require("reference_asset_uuid_pairs", n, 4)
}
