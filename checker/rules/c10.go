package rules

import (
	"fmt"
	"go/constant"
	"go/token"
	"go/types"
	"sort"
	"strings"

	"golang.org/x/tools/go/ssa"

	"verif/checker/core"
)

func init() { register("C10", checkC10) }

// types whose fields make up the persisted session (session JSON = session + runs + steps + contact + input)
var c10PersistedOwners = map[string]bool{
	"flows/engine.session": true, "flows/runs.run": true, "flows/runs.step": true, "flows.Contact": true,
	"flows.ContactURN": true, "flows.GroupList": true, "flows/engine.sprint": true, "flows.Result": true,
}

// fields of those types that are NOT part of the session JSON nor of the sprint handed back (checked against the
// envelope by C02): writing them before a rejection is allowed.
var c10Transient = map[string]string{
	"flows/engine.session.parentRun": "re-derived from the trigger by prepareForSprint on every call; not in sessionEnvelope",
}

// Effects are tracked per object root: a write matters only if the written location is reachable from one of the
// function's parameters (or a captured variable / global); writes into objects created inside the function (readers and
// constructors building a fresh contact, run summary, sprint ...) are not effects on the session.
type effectCtx struct {
	p    *core.Program
	memo map[*ssa.Function]map[string]string // root ("param:i", "free", "global") -> description of a write through it
	busy map[*ssa.Function]bool
	// owns decides whether a write to field `field` of struct `owner` counts (nil = the C10 persisted-state tables)
	owns func(owner, field string) bool
	// mapType decides whether an update of a value of this named map/slice type counts
	mapType func(t string) bool
	// sliceAlias also counts appends that can write into the backing array of a slice held by an owned field
	sliceAlias bool
	// noCallbacks: calls of event/modifier callbacks are not effects (they belong to the caller)
	noCallbacks bool
}

func (c *effectCtx) ownsField(o, f string) bool {
	if c.owns != nil {
		return c.owns(o, f)
	}
	if !c10PersistedOwners[o] {
		return false
	}
	_, tr := c10Transient[o+"."+f]
	return !tr
}

func (c *effectCtx) ownsMapType(t string) bool {
	if c.mapType != nil {
		return c.mapType(t)
	}
	return t == "flows.Results" || t == "flows.FieldValues"
}

func ownerOfFieldAddr(v ssa.Value) (string, string) {
	var xt types.Type
	var idx int
	switch x := v.(type) {
	case *ssa.FieldAddr:
		xt, idx = x.X.Type(), x.Field
	default:
		return "", ""
	}
	if pt, ok := xt.Underlying().(*types.Pointer); ok {
		xt = pt.Elem()
	}
	n, ok := xt.(*types.Named)
	if !ok {
		return "", ""
	}
	st, ok := n.Underlying().(*types.Struct)
	if !ok {
		return "", ""
	}
	return core.QualName(n), st.Field(idx).Name()
}

func pointerish(t types.Type) bool {
	switch t.Underlying().(type) {
	case *types.Pointer, *types.Map, *types.Slice, *types.Interface, *types.Signature, *types.Chan:
		return true
	}
	return false
}

// rootsOf: the objects through which location/value v is reached: "param:<i>", "free", "global"; fresh objects have no root.
func rootsOf(v ssa.Value, fn *ssa.Function) map[string]bool {
	out := map[string]bool{}
	seen := map[ssa.Value]bool{}
	var walk func(v ssa.Value)
	walk = func(v ssa.Value) {
		if v == nil || seen[v] {
			return
		}
		seen[v] = true
		switch x := v.(type) {
		case *ssa.Parameter:
			for i, prm := range fn.Params {
				if prm == x {
					out[fmt.Sprintf("param:%d", i)] = true
				}
			}
		case *ssa.FreeVar:
			out["free"] = true
		case *ssa.Global:
			out["global"] = true
		case *ssa.Alloc:
			// a local cell that holds a pointer-like value: what was stored in it; a struct/array allocation is fresh
			if pt, ok := x.Type().Underlying().(*types.Pointer); ok && pointerish(pt.Elem()) {
				for _, ref := range *x.Referrers() {
					if st, ok := ref.(*ssa.Store); ok && st.Addr == ssa.Value(x) {
						walk(st.Val)
					}
				}
			}
		case *ssa.UnOp:
			walk(x.X)
		case *ssa.FieldAddr:
			walk(x.X)
		case *ssa.IndexAddr:
			walk(x.X)
		case *ssa.Field:
			walk(x.X)
		case *ssa.Index:
			walk(x.X)
		case *ssa.Lookup:
			walk(x.X)
		case *ssa.Slice:
			walk(x.X)
		case *ssa.Phi:
			for _, e := range x.Edges {
				walk(e)
			}
		case *ssa.ChangeType:
			walk(x.X)
		case *ssa.Convert:
			walk(x.X)
		case *ssa.MakeInterface:
			walk(x.X)
		case *ssa.ChangeInterface:
			walk(x.X)
		case *ssa.TypeAssert:
			walk(x.X)
		case *ssa.Extract:
			walk(x.Tuple)
		case *ssa.Call:
			// the result may alias anything reachable from the pointer-like arguments (getters); constructors without
			// pointer arguments yield fresh objects. Raw data ([]byte, string) cannot alias structured objects and vice
			// versa (marshal/unmarshal round trips produce fresh values).
			if f := x.Call.StaticCallee(); f != nil && returnsFresh(f, 0) {
				return
			}
			resRaw := isRawData(x.Type())
			if x.Call.IsInvoke() {
				if !resRaw {
					walk(x.Call.Value)
				}
			}
			for _, a := range x.Call.Args {
				if !pointerish(a.Type()) {
					continue
				}
				if isRawData(a.Type()) != resRaw {
					continue
				}
				walk(a)
			}
		}
	}
	walk(v)
	return out
}

// isRawData: []byte, string, json.RawMessage or a tuple whose pointer-like members are all of those.
func isRawData(t types.Type) bool {
	switch u := t.Underlying().(type) {
	case *types.Basic:
		return true
	case *types.Slice:
		if b, ok := u.Elem().Underlying().(*types.Basic); ok && (b.Kind() == types.Byte || b.Kind() == types.Uint8) {
			return true
		}
	case *types.Tuple:
		for i := 0; i < u.Len(); i++ {
			et := u.At(i).Type()
			if pointerish(et) && !isRawData(et) && !isErrorType(et) {
				return false
			}
		}
		return true
	}
	return false
}

var freshMemo = map[*ssa.Function]int{}

// returnsFresh: every value f returns (first result) is an object created inside f (or by another such function).
func returnsFresh(f *ssa.Function, depth int) bool {
	if f == nil || f.Blocks == nil || depth > 6 {
		return false
	}
	if v, ok := freshMemo[f]; ok {
		return v == 1
	}
	freshMemo[f] = 2
	ok := len(core.Returns(f)) > 0
	for _, ret := range core.Returns(f) {
		if len(ret.Results) == 0 {
			ok = false
			break
		}
		if core.IsNilConst(ret.Results[0]) {
			continue
		}
		if len(rootsOf(ret.Results[0], f)) > 0 {
			ok = false
		}
		// a new object that keeps a pointer it was given (NewRun(session, ...)) is fresh itself but leads to the
		// caller's objects: not "fresh" for the purpose of following getters on it
		for v := range core.BackSlice(ret.Results[0], nil) {
			al, isAlloc := v.(*ssa.Alloc)
			if !isAlloc || al.Referrers() == nil {
				continue
			}
			for _, ref := range *al.Referrers() {
				fa, isFA := ref.(*ssa.FieldAddr)
				if !isFA || fa.Referrers() == nil {
					continue
				}
				for _, r2 := range *fa.Referrers() {
					if st, isSt := r2.(*ssa.Store); isSt && st.Addr == ssa.Value(fa) && pointerish(st.Val.Type()) && len(rootsOf(st.Val, f)) > 0 {
						ok = false
					}
				}
			}
		}
	}
	if ok {
		freshMemo[f] = 1
	}
	return ok
}

// instrWrite: the location written by the instruction (if it belongs to the state the context tracks) and what it is.
func (c *effectCtx) instrWrite(in ssa.Instruction) (ssa.Value, string) {
	switch x := in.(type) {
	case *ssa.Store:
		addr := x.Addr
		if ia, ok := addr.(*ssa.IndexAddr); ok {
			if ld, ok := ia.X.(*ssa.UnOp); ok {
				if o, f := ownerOfFieldAddr(ld.X); o != "" && c.ownsField(o, f) {
					return ld.X, "element store into " + o + "." + f
				}
			}
			return nil, ""
		}
		if o, f := ownerOfFieldAddr(addr); o != "" && c.ownsField(o, f) {
			return addr, "store to " + o + "." + f
		}
	case *ssa.MapUpdate:
		if ld, ok := x.Map.(*ssa.UnOp); ok {
			if o, f := ownerOfFieldAddr(ld.X); o != "" && c.ownsField(o, f) {
				return x.Map, "map update of " + o + "." + f
			}
		}
		if t := core.ShortType(x.Map.Type()); c.ownsMapType(t) {
			return x.Map, "map update of " + t
		}
	case *ssa.Call:
		// delete(m, k) on an owned map; append into a re-sliced owned slice
		if b, ok := x.Call.Value.(*ssa.Builtin); ok {
			switch b.Name() {
			case "delete":
				m := x.Call.Args[0]
				if ld, ok := m.(*ssa.UnOp); ok {
					if o, f := ownerOfFieldAddr(ld.X); o != "" && c.ownsField(o, f) {
						return m, "delete from " + o + "." + f
					}
				}
				if t := core.ShortType(m.Type()); c.ownsMapType(t) {
					return m, "delete from " + t
				}
			case "append":
				if !c.sliceAlias {
					return nil, ""
				}
				// append(x, ...) where x is (a phi/append chain over) a re-slice s.f[:k] of an owned field: the append can
				// overwrite elements of the shared backing array
				if fa := reslicedOwnedField(x.Call.Args[0]); fa != nil {
					if o, f := ownerOfFieldAddr(fa); o != "" && c.ownsField(o, f) {
						return fa, "append to (a re-slice of) " + o + "." + f + " without copying it first (shares its backing array)"
					}
				}
			}
		}
	}
	return nil, ""
}

// reslicedOwnedField: v derives, through phis and appends, from `slice (load of field)[lo:hi]`; returns the field address.
func reslicedOwnedField(v ssa.Value) ssa.Value {
	seen := map[ssa.Value]bool{}
	var res ssa.Value
	var walk func(v ssa.Value)
	walk = func(v ssa.Value) {
		if seen[v] || res != nil {
			return
		}
		seen[v] = true
		switch x := v.(type) {
		case *ssa.Phi:
			for _, e := range x.Edges {
				walk(e)
			}
		case *ssa.Call:
			if b, ok := x.Call.Value.(*ssa.Builtin); ok && b.Name() == "append" {
				walk(x.Call.Args[0])
			}
		case *ssa.Slice:
			if ld, ok := x.X.(*ssa.UnOp); ok && ld.Op == token.MUL {
				if _, isFA := ld.X.(*ssa.FieldAddr); isFA {
					res = ld.X
				}
			}
		case *ssa.UnOp:
			// the field's slice itself, not copied: an append writes into its spare capacity
			if x.Op == token.MUL {
				if _, isFA := x.X.(*ssa.FieldAddr); isFA {
					res = x.X
				}
			}
		}
	}
	walk(v)
	return res
}

// summary of fn: roots through which it (transitively) writes persisted state.
func (c *effectCtx) summary(fn *ssa.Function, depth int) map[string]string {
	if fn == nil || fn.Blocks == nil {
		return nil
	}
	if m, ok := c.memo[fn]; ok {
		return m
	}
	if c.busy[fn] || depth > 14 {
		return nil
	}
	c.busy[fn] = true
	defer delete(c.busy, fn)
	res := map[string]string{}
	core.EachInstr(fn, false, func(f *ssa.Function, in ssa.Instruction) {
		if loc, what := c.instrWrite(in); loc != nil {
			for rt := range rootsOf(loc, fn) {
				if _, dup := res[rt]; !dup {
					res[rt] = core.FuncName(fn) + ": " + what
				}
			}
		}
		if ci, ok := in.(ssa.CallInstruction); ok {
			for rt, d := range c.callRoots(fn, ci, depth) {
				if _, dup := res[rt]; !dup {
					res[rt] = d
				}
			}
		}
	})
	c.memo[fn] = res
	return res
}

// callRoots: the roots (in the caller's terms) through which this call writes persisted state.
func (c *effectCtx) callRoots(caller *ssa.Function, ci ssa.CallInstruction, depth int) map[string]string {
	cc := ci.Common()
	out := map[string]string{}
	apply := func(callee *ssa.Function, args []ssa.Value) {
		sm := c.summary(callee, depth+1)
		for rt, d := range sm {
			switch {
			case strings.HasPrefix(rt, "param:"):
				var i int
				fmt.Sscanf(rt, "param:%d", &i)
				if i < len(args) {
					for r2 := range rootsOf(args[i], caller) {
						if _, dup := out[r2]; !dup {
							out[r2] = d
						}
					}
				}
			case rt == "free":
				// a closure writing through its captured variables: the bindings live in the caller
				if mc, ok := cc.Value.(*ssa.MakeClosure); ok {
					for _, b := range mc.Bindings {
						for r2 := range rootsOf(b, caller) {
							if _, dup := out[r2]; !dup {
								out[r2] = d
							}
						}
					}
				} else {
					out["free"] = d
				}
			default:
				out[rt] = d
			}
		}
	}
	if f := cc.StaticCallee(); f != nil {
		if core.InModule(core.FuncPkgPath(f)) {
			apply(f, cc.Args)
		}
		return out
	}
	if mc, ok := cc.Value.(*ssa.MakeClosure); ok {
		apply(mc.Fn.(*ssa.Function), cc.Args)
		return out
	}
	if cc.IsInvoke() {
		if n := c.p.CHA().Nodes[caller]; n != nil {
			for _, e := range n.Out {
				if e.Site == ci && core.InModule(core.FuncPkgPath(e.Callee.Func)) {
					apply(e.Callee.Func, append([]ssa.Value{cc.Value}, cc.Args...))
				}
			}
		}
		return out
	}
	// call of an event/modifier callback (logEvent, logModifier): the sprint and run event lists are written by it
	isEventCB := func(t types.Type) bool {
		if pt, ok := t.(*types.Pointer); ok {
			t = pt.Elem()
		}
		n, ok := t.(*types.Named)
		return ok && (n.Obj().Name() == "EventCallback" || n.Obj().Name() == "ModifierCallback")
	}
	if c.noCallbacks {
		return out
	}
	if prm, isParam := cc.Value.(*ssa.Parameter); isParam && isEventCB(prm.Type()) {
		for r2 := range rootsOf(prm, caller) {
			out[r2] = core.FuncName(caller) + ": call of event callback " + prm.Name()
		}
	}
	if u, ok := cc.Value.(*ssa.UnOp); ok {
		if fv, isFV := u.X.(*ssa.FreeVar); isFV && isEventCB(fv.Type()) {
			out["free"] = core.FuncName(caller) + ": call of captured event callback " + fv.Name()
		}
	}
	return out
}

// instrEffect / callEffect / fnEffect: an effect exists when the write goes through any non-fresh root.
func (c *effectCtx) instrEffect(fn *ssa.Function, in ssa.Instruction) string {
	if loc, what := c.instrWrite(in); loc != nil {
		if len(rootsOf(loc, fn)) > 0 {
			return what
		}
	}
	return ""
}

func (c *effectCtx) callEffect(caller *ssa.Function, ci ssa.CallInstruction, depth int) string {
	m := c.callRoots(caller, ci, depth)
	for _, k := range core.SortedKeys(m) {
		return m[k]
	}
	return ""
}

func (c *effectCtx) fnEffect(fn *ssa.Function, depth int) string {
	m := c.summary(fn, depth)
	for _, k := range core.SortedKeys(m) {
		return m[k]
	}
	return ""
}

// c10R9: (flow, error) results of flows/definition: nil flow with a non-nil error.
func c10R9(p *core.Program, r *core.Report) {
	n := 0
	for _, fn := range p.ModuleFunctions() {
		if core.RelPkg(core.FuncPkgPath(fn)) != "flows/definition" || p.IsTestFile(fn.Pos()) || fn.Synthetic != "" || fn.Blocks == nil {
			continue
		}
		res := fn.Signature.Results()
		if res.Len() != 2 || res.At(1).Type().String() != "error" {
			continue
		}
		t0 := core.ShortType(res.At(0).Type())
		if !strings.HasSuffix(t0, "flows.Flow") && !strings.HasSuffix(t0, "definition.flow") {
			continue
		}
		n++
		bad := ""
		// the points where the two results are decided: the return itself, or — when a defer makes go/ssa spill the
		// results into cells — the blocks that store both cells
		type point struct {
			b      *ssa.BasicBlock
			r0, r1 ssa.Value
			pos    token.Pos
		}
		var points []point
		for _, ret := range core.Returns(fn) {
			if len(ret.Results) != 2 {
				continue
			}
			l0, ok0 := ret.Results[0].(*ssa.UnOp)
			l1, ok1 := ret.Results[1].(*ssa.UnOp)
			if ok0 && ok1 && l0.Op == token.MUL && l1.Op == token.MUL {
				a0, isA0 := l0.X.(*ssa.Alloc)
				a1, isA1 := l1.X.(*ssa.Alloc)
				if isA0 && isA1 {
					for _, b := range fn.Blocks {
						var v0, v1 ssa.Value
						var at token.Pos
						for _, in := range b.Instrs {
							if st, ok := in.(*ssa.Store); ok {
								if st.Addr == ssa.Value(a0) {
									v0, at = st.Val, st.Pos()
								}
								if st.Addr == ssa.Value(a1) {
									v1 = st.Val
								}
							}
						}
						if v0 != nil && v1 != nil {
							points = append(points, point{b, v0, v1, at})
						}
					}
					continue
				}
			}
			points = append(points, point{ret.Block(), ret.Results[0], ret.Results[1], ret.Pos()})
		}
		for _, pt := range points {
			if core.IsNilConst(pt.r1) || core.IsNilConst(pt.r0) {
				continue
			}
			// the error may be non-nil here unless the point is on the nil edge of a test of that very error
			onNilEdge := false
			for _, ce := range core.ControllingConds(pt.b) {
				if bo, ok := ce.Cond.(*ssa.BinOp); ok && (bo.Op == token.EQL || bo.Op == token.NEQ) {
					if (bo.X == pt.r1 && core.IsNilConst(bo.Y)) || (bo.Y == pt.r1 && core.IsNilConst(bo.X)) {
						if (bo.Op == token.EQL) == ce.Taken {
							onNilEdge = true
						}
					}
				}
			}
			// forwarding both results of one call of another such function is that function's obligation
			if e0, ok := pt.r0.(*ssa.Extract); ok {
				if e1, ok := pt.r1.(*ssa.Extract); ok && e0.Tuple == e1.Tuple {
					onNilEdge = true
				}
			}
			if !onNilEdge {
				bad = p.Pos(pt.pos)
			}
		}
		r.Check(bad == "", "R9", core.FuncName(fn)+"/nil-flow-with-error", p.Pos(fn.Pos()), "a possibly non-nil error is returned with the nil flow only", core.FuncName(fn)+" returns a flow together with an error that may be non-nil ("+bad+"): callers that keep the flow and test it for nil treat an unloadable flow as loaded")
	}
	r.Count("flow_and_error_functions", n)
	r.Require("flow_and_error_functions", n, 3)
}

func checkC10(p *core.Program, r *core.Report) {
	r.Rule("R1", "nothing happens before a rejection: on every path of Resume/tryToResume that ends in `return ..., newError(...)` (or forwards a rejection of tryToResume), no instruction or callee writes a persisted session/run/step/contact/sprint field (only the transient session.parentRun is allowed)")
	r.Rule("R2", "accept before apply: the stores to session.status/currentResume, Resume.Apply, the group re-evaluation and the loop call are dominated by the edge on which Wait.Accepts(resume) is true")
	r.Rule("R3", "unrecoverable => failed, not error: every return of tryToResume is a rejection (newError), a nil after failSession, or the loop's own result; receivers obtained from Node.Router()/Router.Wait() are nil-tested before use")
	r.Rule("R4", "accept table: each Wait.Accepts implementation is evaluated over resume type x timeout set/unset; the table is total, every resume type is accepted by some wait, and wait_timeout is never accepted without a timeout (RouteTimeout dereferences it)")
	r.Assumption("the persisted field set is the one C02 derives from the envelopes; asset faults inside ReadSession are out of scope")

	e := resolveEngine(p, r)
	if e == nil {
		return
	}
	newErr := p.Func("flows/engine", "newError")
	prep := p.Method("flows/engine", "session", "prepareForSprint")
	if newErr == nil || prep == nil {
		r.Errorf("engine.newError / session.prepareForSprint not found")
		return
	}
	ec := &effectCtx{p: p, memo: map[*ssa.Function]map[string]string{}, busy: map[*ssa.Function]bool{}}

	// ------------------------------------------------------------------ R1
	isRejection := func(v ssa.Value, fn *ssa.Function) bool {
		for x := range core.BackSlice(v, nil) {
			if c, ok := x.(*ssa.Call); ok {
				if f := c.Call.StaticCallee(); f == newErr || (fn == e.resume && f == e.tryResume) {
					return true
				} else if f != fn && c10ProducesRejection(f, newErr, 0) {
					// generalised: the rejection is built by a helper of the package that this function forwards
					return true
				}
			}
		}
		return false
	}
	for _, fn := range []*ssa.Function{e.resume, e.tryResume} {
		nRej := 0
		viol := map[string]string{}
		res := core.ExplorePaths(fn, core.PathRules{
			LoopBound: 1,
			OnInstr: func(s *core.PathState, in ssa.Instruction) {
				if eff := ec.instrEffect(fn, in); eff != "" {
					s.Effects = append(s.Effects, core.Effect{Kind: "EFFECT", Instr: in, Data: eff + " at " + p.Pos(in.Pos())})
				}
			},
			OnCall: func(s *core.PathState, c ssa.CallInstruction) []core.CallOutcome {
				if fn == e.resume && c.Common().StaticCallee() == e.tryResume {
					return nil // judged on its own
				}
				if eff := ec.callEffect(fn, c, 0); eff != "" {
					return []core.CallOutcome{{Effects: []core.Effect{{Kind: "EFFECT", Instr: c, Data: eff + " (called at " + p.Pos(c.Pos()) + ")"}}}}
				}
				return nil
			},
			OnExit: func(s *core.PathState, ret *ssa.Return, pan *ssa.Panic) {
				if ret == nil {
					return
				}
				ev := errResult(ret)
				if ev == nil || core.IsNilConst(ev) || !isRejection(ev, fn) {
					return
				}
				nRej++
				key := fmt.Sprintf("%s/rejection@%s", fn.Name(), p.Pos(ret.Pos()))
				for _, ef := range s.Effects {
					if ef.Kind == "EFFECT" {
						if _, dup := viol[key]; !dup {
							viol[key] = fmt.Sprintf("%v [blocks %v]", ef.Data, s.Blocks)
						}
					}
				}
				if _, bad := viol[key]; !bad {
					viol[key] = viol[key] // keep key present for OK reporting below
				}
			},
		})
		if res.Truncated {
			r.Unknown("R1", fn.Name()+"/paths", p.Pos(fn.Pos()), "path budget exceeded")
		}
		// report per rejection return (keyed by the error code constant rather than by line)
		for _, ret := range core.Returns(fn) {
			ev := errResult(ret)
			if ev == nil || core.IsNilConst(ev) || !isRejection(ev, fn) {
				continue
			}
			code := rejectionCode(ev, newErr, e.tryResume)
			key := fn.Name() + "/rejection " + code
			d := viol[fmt.Sprintf("%s/rejection@%s", fn.Name(), p.Pos(ret.Pos()))]
			r.Check(d == "", "R1", key, p.Pos(ret.Pos()), "no persisted state is written on any path to this rejection",
				"the session is modified before the resume is rejected with an engine error (it is no longer left exactly as it was): "+d)
		}
		r.Count("rejection_paths_"+fn.Name(), nRej)
		if nRej == 0 {
			r.Bad("R1", fn.Name()+"/has-rejection-path", p.Pos(fn.Pos()), "no rejection path found (the rule matches nothing)")
		}
	}
	// prepareForSprint only writes transient state (it runs before every rejection)
	r.Check(ec.fnEffect(prep, 0) == "", "R1", "prepareForSprint/only-transient-writes", p.Pos(prep.Pos()), "writes session.parentRun only", "prepareForSprint writes persisted state: "+ec.fnEffect(prep, 0))

	// ------------------------------------------------------------------ R2
	// generalised: the question may be asked in a helper of the package whose result tryToResume branches on
	accept := c10FindAccept(e.tryResume, newErr)
	if !r.Check(accept != nil, "R2", "tryToResume/calls-Accepts", p.Pos(e.tryResume.Pos()), "Wait.Accepts(resume) is consulted", "tryToResume never asks the wait whether it accepts the resume") {
		return
	}
	// argument is the resume parameter
	var resumeP *ssa.Parameter
	for _, prm := range e.tryResume.Params {
		if core.ShortType(prm.Type()) == "flows.Resume" {
			resumeP = prm
		}
	}
	r.Check(resumeP != nil && accept.resumeArg == ssa.Value(resumeP), "R2", "tryToResume/Accepts-argument", p.Pos(accept.inner.Pos()), "asked about the resume being applied", "Accepts is asked about a different value than the resume that is applied")
	acceptedEdge := func(in ssa.Instruction) bool {
		for _, ce := range core.ControllingConds(in.Block()) {
			if accepted, _ := accept.implies(ce.Cond, ce.Taken); accepted {
				return true
			}
		}
		return false
	}
	nGuarded := 0
	core.EachInstr(e.tryResume, false, func(_ *ssa.Function, in ssa.Instruction) {
		what := ""
		if st, ok := in.(*ssa.Store); ok {
			if o, f := ownerOfFieldAddr(st.Addr); o == "flows/engine.session" && (f == "status" || f == "currentResume") {
				if s, isC := core.ConstString(st.Val); f == "currentResume" || (isC && s == "active") {
					what = "session." + f + " store"
				}
			}
		}
		if ci, ok := in.(ssa.CallInstruction); ok {
			cc := ci.Common()
			switch {
			case cc.IsInvoke() && cc.Method.Name() == "Apply":
				what = "resume.Apply"
			case cc.StaticCallee() != nil && cc.StaticCallee().Name() == "ensureQueryBasedGroups":
				what = "ensureQueryBasedGroups"
			case cc.StaticCallee() == e.loop:
				what = "continueUntilWait"
			case cc.StaticCallee() == e.findExit:
				what = "findResumeExit"
			}
		}
		if what == "" {
			return
		}
		nGuarded++
		r.Check(acceptedEdge(in), "R2", "tryToResume/"+what+"-after-accept", p.Pos(in.Pos()), "dominated by the edge where Accepts(resume) is true", what+" can run although the wait has not accepted the resume")
	})
	r.Require("accept_guarded_effects", nGuarded, 3)
	// apply before groups before loop (ordering of the accepted region)
	var applyI, groupsI, loopI ssa.Instruction
	for _, cs := range core.Calls(e.tryResume, false) {
		cc := cs.Common()
		switch {
		case cc.IsInvoke() && cc.Method.Name() == "Apply":
			applyI = cs.Instr
		case cc.StaticCallee() != nil && cc.StaticCallee().Name() == "ensureQueryBasedGroups":
			groupsI = cs.Instr
		case cc.StaticCallee() == e.loop:
			loopI = cs.Instr
		}
	}
	if applyI != nil && groupsI != nil && loopI != nil {
		r.Check(core.InstrDominates(applyI, groupsI) && core.InstrDominates(groupsI, loopI), "R2", "tryToResume/apply-groups-loop-order", p.Pos(applyI.Pos()),
			"resume.Apply dominates the group re-evaluation, which dominates the loop", "the resume's state changes are not applied before groups are re-evaluated and the flow continues")
	}

	// ------------------------------------------------------------------ R3
	always := map[*ssa.Function]bool{}
	for _, an := range e.tryResume.AnonFuncs {
		m := settledAnalysis(an, e.statusField, nil, nil)
		ok := len(core.Returns(an)) > 0
		for _, ret := range core.Returns(an) {
			if !m.At(ret) {
				ok = false
			}
		}
		if ok {
			always[an] = true
		}
	}
	nRet := 0
	for _, ret := range core.Returns(e.tryResume) {
		nRet++
		ev := errResult(ret)
		key := fmt.Sprintf("tryToResume/return#%d", nRet)
		switch {
		case core.IsNilConst(ev):
			// preceded in the same block by a call of the fail-session closure
			okFail := false
			for _, in := range ret.Block().Instrs {
				if ci, ok := in.(ssa.CallInstruction); ok {
					if mc, ok := ci.Common().Value.(*ssa.MakeClosure); ok && always[mc.Fn.(*ssa.Function)] {
						okFail = true
					}
					// the same thing written as a function or method of the package
					if g := ci.Common().StaticCallee(); g != nil && g.Blocks != nil && core.FuncPkgPath(g) == core.FuncPkgPath(e.tryResume) {
						if _, done := always[g]; !done {
							m := settledAnalysis(g, e.statusField, nil, nil)
							ok := len(core.Returns(g)) > 0
							for _, gr := range core.Returns(g) {
								if !m.At(gr) {
									ok = false
								}
							}
							always[g] = ok
						}
						if always[g] {
							okFail = true
						}
					}
				}
			}
			r.Check(okFail, "R3", key, p.Pos(ret.Pos()), "nil after failSession", "returns nil without ending the session as failed")
		case isRejection(ev, e.tryResume):
			// the property names the reasons a resume may be rejected with an engine error (not waiting, no waiting run,
			// the wait does not accept it); everything else that makes resumption impossible must fail the session. In
			// tryToResume the only rejection is therefore the one decided by Wait.Accepts
			why := "not guarded by any test"
			if cds := core.ControllingConds(ret.Block()); len(cds) > 0 {
				cond, taken := cds[0].Cond, cds[0].Taken
				for {
					if un, ok := cond.(*ssa.UnOp); ok && un.Op == token.NOT {
						cond, taken = un.X, !taken
						continue
					}
					break
				}
				why = "decided by " + cond.String()
				if c, ok := cond.(*ssa.Call); ok && c.Call.IsInvoke() && c.Call.Method.Name() == "Accepts" && !taken {
					why = ""
				} else if _, rejected := accept.implies(cond, taken); rejected {
					why = "" // the answer of a helper that produces its rejecting outcome only where Accepts is false
				}
			}
			r.Check(why == "", "R3", key, p.Pos(ret.Pos()), "rejection "+rejectionCode(ev, newErr, e.tryResume)+" on the edge where Wait.Accepts(resume) is false",
				"tryToResume rejects the resume with an engine error ("+rejectionCode(ev, newErr, e.tryResume)+") "+why+": a condition other than 'the wait does not accept this resume' must end the session as failed with a failure event, not leave it waiting")
		default:
			fromLoop := false
			for x := range core.BackSlice(ev, nil) {
				if c, ok := x.(*ssa.Call); ok && c.Call.StaticCallee() == e.loop {
					fromLoop = true
				}
			}
			r.Check(fromLoop, "R3", key, p.Pos(ret.Pos()), "forwards the loop's result", "an unrecoverable condition is reported as a Go error instead of ending the session as failed")
		}
	}
	// a node that lost its router or wait: the nil outcome of each nil test of Node.Router() / Router.Wait() in
	// tryToResume ends the session as failed on every path (it does not carry on and resume the session anyway)
	nullable := map[string]bool{"flows.Node.Router": true, "flows.Router.Wait": true}
	{
		failsIn := func(b *ssa.BasicBlock) bool {
			for _, in := range b.Instrs {
				if ci, ok := in.(ssa.CallInstruction); ok {
					if mc, ok := ci.Common().Value.(*ssa.MakeClosure); ok && always[mc.Fn.(*ssa.Function)] {
						return true
					}
					if g := ci.Common().StaticCallee(); g != nil && always[g] {
						return true
					}
				}
			}
			return false
		}
		per := map[string]int{}
		nTests := 0
		core.EachInstr(e.tryResume, false, func(_ *ssa.Function, in ssa.Instruction) {
			iff, ok := in.(*ssa.If)
			if !ok {
				return
			}
			bo, ok := iff.Cond.(*ssa.BinOp)
			if !ok || (bo.Op != token.EQL && bo.Op != token.NEQ) || !core.IsNilConst(bo.Y) {
				return
			}
			what := ""
			for w := range core.BackSlice(bo.X, nil) {
				if c, ok := w.(*ssa.Call); ok && c.Call.IsInvoke() {
					if o := core.CalleeObj(&c.Call); o != nil && nullable[core.ObjName(o)] {
						if _, isPhi := bo.X.(*ssa.Phi); isPhi || w == bo.X {
							what = core.ObjName(o)
						}
					}
				}
			}
			if what == "" {
				return
			}
			nTests++
			nilSucc := iff.Block().Succs[0]
			if bo.Op == token.NEQ {
				nilSucc = iff.Block().Succs[1]
			}
			escapes := ""
			seen := map[*ssa.BasicBlock]bool{}
			var walk func(b *ssa.BasicBlock)
			walk = func(b *ssa.BasicBlock) {
				if seen[b] || failsIn(b) {
					return
				}
				seen[b] = true
				if len(b.Succs) == 0 {
					if _, isRet := b.Instrs[len(b.Instrs)-1].(*ssa.Return); isRet {
						escapes = p.Pos(b.Instrs[len(b.Instrs)-1].Pos())
					}
				}
				for _, sc := range b.Succs {
					walk(sc)
				}
			}
			walk(nilSucc)
			per[what]++
			key := fmt.Sprintf("tryToResume/%s()==nil#%d/fails-session", what, per[what])
			r.Check(escapes == "", "R3", key, p.Pos(bo.Pos()), "every path from the nil outcome calls failSession", "when "+what+"() is nil, tryToResume can reach the return at "+escapes+" without ending the session as failed: a session waiting at a node that has no router or wait any more is resumed (or left) instead of failed")
		})
		r.Require("router_wait_nil_tests", nTests, 1)
	}
	// nil-tested receivers
	for _, fn := range []*ssa.Function{e.tryResume, e.visit, e.pick} {
		per := map[string]int{}
		for _, cs := range core.Calls(fn, false) {
			cc := cs.Common()
			if g := cc.StaticCallee(); g != nil && g.Blocks != nil && core.InModule(core.FuncPkgPath(g)) {
				// generalised: the possibly-nil result is handed to a helper that invokes a method on that parameter
				// without a nil test of its own — the obligation stays with the call site
				for i, a := range cc.Args {
					rc, ok := a.(*ssa.Call)
					if !ok {
						continue
					}
					o := core.CalleeObj(&rc.Call)
					if o == nil || !nullable[core.ObjName(o)] || !c10DerefsParam(g, i, 0) {
						continue
					}
					k := fn.Name() + "/" + core.ObjName(o) + "()->" + g.Name()
					per[k]++
					key := k
					if per[k] > 1 {
						key = fmt.Sprintf("%s#%d", k, per[k])
					}
					r.Check(nilGuarded(cs.Instr.Block(), rc), "R3", key, p.Pos(cs.Pos()), "argument nil-tested on every path",
						"the result of "+core.ObjName(o)+"() is passed without a nil test to "+g.Name()+", which calls a method on it: a node that lost its router/wait between sprints panics instead of failing the session")
				}
				continue
			}
			if !cc.IsInvoke() {
				continue
			}
			rc, ok := cc.Value.(*ssa.Call)
			if !ok {
				// receiver may be a phi / local holding the result
				continue
			}
			o := core.CalleeObj(&rc.Call)
			if o == nil || !nullable[core.ObjName(o)] {
				continue
			}
			k := fn.Name() + "/" + core.ObjName(o) + "()." + cc.Method.Name()
			per[k]++
			key := k
			if per[k] > 1 {
				key = fmt.Sprintf("%s#%d", k, per[k])
			}
			r.Check(nilGuarded(cs.Instr.Block(), rc), "R3", key, p.Pos(cs.Pos()), "receiver nil-tested on every path",
				"method called on the result of "+core.ObjName(o)+"() without a nil test: a node that lost its router/wait between sprints panics instead of failing the session")
		}
	}

	// ------------------------------------------------------------------ R4
	c10R4(p, r)

	// ------------------------------------------------------------------ R5 the resume limit
	r.Rule("R5", "'resume limit reached' ends the session as failed: the limit test and the wait counter it relies on (every kind of wait counts) are obligations here too (imported from C05/R3)")
	importObligations(p, r, "C05", map[string]bool{"R3": true}, "R5", "the resume limit does not end the session as the property prescribes")

	// ------------------------------------------------------------------ R7 a run whose node is gone
	r.Rule("R7", "a run whose node vanished has no location: the node PathLocation returns is nil together with an error; in flows/engine and flows/runs it is dereferenced — directly, or by a callee it is handed to that invokes a method on that parameter without a nil test — only under a test of that error or of the node itself")
	c10R7(p, r)

	// ------------------------------------------------------------------ R8 a tolerated error stays tolerated
	r.Rule("R9", "no flow comes with an error: every function of flows/definition that returns (a flow, error) returns the nil flow wherever the error it returns can be non-nil — the run readers keep whatever Flows().Get returned and tryToResume tells a run whose flow could not be loaded by Flow() == nil; a half-built flow handed back together with its validation error passes that test, the resume is accepted and applied, and the session is left active by the Go error that follows")
	c10R9(p, r)
	r.Rule("R8", "an error that was tolerated is not reported later: in the readers and the engine (flows, flows/runs, flows/engine), where an error value was tested and the failing branch carried on (a missing flow is reported to the missing-asset callback and reading continues), that same value does not reach a later `err != nil` test that returns it — merging it with a later assignment under one test turns a session restored without its flow into a Go error")
	c10R8(p, r)

	// ------------------------------------------------------------------ R6 a run whose flow is gone
	r.Rule("R6", "a run restored without its flow has a nil Flow(): in flows/engine and flows/runs every method invoked on the result of Run.Flow() (or on the run's flow field) is controlled by a nil test of that same expression, or is listed as running only while the run executes (which starts from a node found through its flow)")
	c10R6(p, r)
}

// c10FlowDerefAllowed: dereferences of a run's flow that need the run to be executing. key as reported.
var c10FlowDerefAllowed = map[string]string{
	"(*flows/runs.run).getText/Language":                  "text lookup for an action or router of the node being executed",
	"(*flows/runs.run).getText/Language#2":                "text lookup for an action or router of the node being executed",
	"(*flows/runs.run).getText/Localization":              "text lookup for an action or router of the node being executed",
	"(*flows/runs.run).getLanguages/Language":             "language preference for a lookup made while executing a node",
	"flows/runs.newRunSummaryFromRun/Reference":           "Snapshot() is only taken by the start_session action of the run being executed",
	"(*flows/engine.session).continueUntilWait/GetNode":   "segment logging under exit != nil: the exit was returned by visitNode (the run executes) or by findResumeExit, which the loop calls only on the Flow() != nil branch",
	"(*flows/engine.session).continueUntilWait/GetNode#2": "destination lookup: a destination exists only after an exit was taken (see above) or a flow was just pushed (a new run created from a loaded flow)",
	"(*flows/engine.session).continueUntilWait/UUID":      "error text on the same path as the destination lookup",
}

func c10R6(p *core.Program, r *core.Report) {
	flowField := p.FieldOf("flows/runs", "run", "flow")
	n := 0
	per := map[string]int{}
	for _, fn := range p.ModuleFunctions() {
		rel := core.RelPkg(core.FuncPkgPath(fn))
		if (rel != "flows/engine" && rel != "flows/runs") || p.IsTestFile(fn.Pos()) {
			continue
		}
		for _, cs := range core.Calls(fn, false) {
			com := cs.Common()
			if !com.IsInvoke() {
				continue
			}
			recv := core.StripConv(com.Value)
			isFlow := false
			switch x := recv.(type) {
			case *ssa.Call:
				if o := core.CalleeObj(&x.Call); o != nil && o.Name() == "Flow" && len(x.Call.Args)+btoi(x.Call.IsInvoke()) == 1 {
					switch core.ObjName(o) {
					case "flows.Run.Flow", "flows/runs.run.Flow", "flows.RunSummary.Flow":
						isFlow = true
					}
				}
			case *ssa.UnOp:
				if flowField != nil && core.FieldAddrVar(x.X) == flowField {
					isFlow = true
				}
			}
			if !isFlow {
				continue
			}
			n++
			k := core.FuncName(rootFn(fn)) + "/" + com.Method.Name()
			per[k]++
			key := k
			if per[k] > 1 {
				key = fmt.Sprintf("%s#%d", k, per[k])
			}
			if g := xNilGuard(cs.Instr.Block(), recv); g != "" {
				r.OK("R6", key, p.Pos(cs.Pos()), "guarded: "+g)
				continue
			}
			if reason, ok := c10FlowDerefAllowed[key]; ok {
				r.OK("R6", key, p.Pos(cs.Pos()), "listed: "+reason)
				continue
			}
			r.Bad("R6", key, p.Pos(cs.Pos()), fmt.Sprintf("%s() is called on %s without a nil test: for a run restored against assets from which its flow was deleted this is a nil interface call — the resume panics instead of ending the session as failed", com.Method.Name(), canonShort(recv)))
		}
	}
	r.Require("run_flow_dereferences", n, 4)
}

func btoi(b bool) int {
	if b {
		return 1
	}
	return 0
}

func rejectionCode(ev ssa.Value, newErr *ssa.Function, forwarded *ssa.Function) string {
	if code := c10RejectionCodeIn(ev, newErr, forwarded, 0); code != "" {
		return code
	}
	return "forwarded-from-tryToResume"
}

// c10RejectionCodeIn: the error code of the newError call ev derives from — in this function or (generalised) in a
// helper whose result is forwarded; results of `forwarded` (tryToResume, judged on its own) are not entered.
func c10RejectionCodeIn(ev ssa.Value, newErr *ssa.Function, forwarded *ssa.Function, depth int) string {
	var helpers []*ssa.Function
	for x := range core.BackSlice(ev, nil) {
		c, ok := x.(*ssa.Call)
		if !ok {
			continue
		}
		g := c.Call.StaticCallee()
		if g == newErr {
			if s, ok := core.ConstString(c.Call.Args[0]); ok {
				return s
			}
			return canon(c.Call.Args[0])
		}
		if g != nil && g != forwarded && g != c.Parent() && c10ProducesRejection(g, newErr, depth) {
			helpers = append(helpers, g)
		}
	}
	sort.Slice(helpers, func(i, j int) bool { return core.FuncName(helpers[i]) < core.FuncName(helpers[j]) })
	for _, g := range helpers {
		for _, ret := range core.Returns(g) {
			if rv := errResult(ret); rv != nil && !core.IsNilConst(rv) {
				if code := c10RejectionCodeIn(rv, newErr, forwarded, depth+1); code != "" {
					return code
				}
			}
		}
	}
	return ""
}

// c10ProducesRejection: g is a function of the module one of whose returns hands back an error built by newError
// (directly or through another such function, two levels).
func c10ProducesRejection(g *ssa.Function, newErr *ssa.Function, depth int) bool {
	if g == nil || g == newErr || g.Blocks == nil || depth > 2 || !core.InModule(core.FuncPkgPath(g)) {
		return false
	}
	for _, ret := range core.Returns(g) {
		rv := errResult(ret)
		if rv == nil || core.IsNilConst(rv) || core.ShortType(rv.Type()) != "error" {
			continue
		}
		for x := range core.BackSlice(rv, nil) {
			if c, ok := x.(*ssa.Call); ok {
				if f := c.Call.StaticCallee(); f == newErr || (f != g && c10ProducesRejection(f, newErr, depth+1)) {
					return true
				}
			}
		}
	}
	return false
}

// c10AcceptAnswer: where tryToResume asks Wait.Accepts and how the answer reaches its branches — asked directly (outer
// == inner, the condition is the call), or inside a helper of the package whose bool (true = accepted) or error (nil =
// accepted) result tryToResume branches on.
type c10AcceptAnswer struct {
	inner, outer *ssa.Call
	resumeArg    ssa.Value // in tryToResume: the value Accepts is asked about (nil = not a value of tryToResume)
	isErr        bool      // the helper answers with an error
	acceptedOnly bool      // the accepting outcome (true / nil) is produced only where Accepts returned true
	rejectedOnly bool      // the rejecting outcome (false / non-nil) is produced only where Accepts returned false
}

// c10AcceptsEdge: the polarity with which the result of the Accepts call ac decides block b on every path: +1 the
// true edge dominates b, -1 the false edge, 0 neither.
func c10AcceptsEdge(b *ssa.BasicBlock, ac *ssa.Call) int {
	for _, ce := range core.ControllingConds(b) {
		cond, taken := ce.Cond, ce.Taken
		for {
			if un, ok := cond.(*ssa.UnOp); ok && un.Op == token.NOT {
				cond, taken = un.X, !taken
				continue
			}
			break
		}
		if cond == ssa.Value(ac) {
			if taken {
				return 1
			}
			return -1
		}
	}
	return 0
}

// c10FindAccept locates the accept decision of fn (tryToResume): the last Wait.Accepts invoke in fn itself or in a
// function of its package that fn calls directly (a check a refactoring extracted).
func c10FindAccept(fn *ssa.Function, newErr *ssa.Function) *c10AcceptAnswer {
	var a *c10AcceptAnswer
	for _, ec := range core.EffectiveCalls(fn, 1) {
		cc := ec.Inner.Common()
		inner, isCall := ec.Inner.Instr.(*ssa.Call)
		if !isCall || !cc.IsInvoke() || cc.Method.Name() != "Accepts" || len(cc.Args) != 1 {
			continue
		}
		if len(ec.Chain) == 0 {
			a = &c10AcceptAnswer{inner: inner, outer: inner, resumeArg: cc.Args[0], acceptedOnly: true, rejectedOnly: true}
			continue
		}
		outer, isCall := ec.Outer.(*ssa.Call)
		h := ec.Chain[0]
		if !isCall || outer.Call.StaticCallee() != h || h.Signature.Results().Len() != 1 {
			continue // a closure, a deferred call, or a helper with several results: not a shape this rule knows
		}
		b := &c10AcceptAnswer{inner: inner, outer: outer, acceptedOnly: true, rejectedOnly: true}
		switch core.ShortType(h.Signature.Results().At(0).Type()) {
		case "bool":
		case "error":
			b.isErr = true
		default:
			continue
		}
		// what the helper asks about is one of its parameters: the argument at the call
		for i, prm := range h.Params {
			if ssa.Value(prm) == cc.Args[0] && i < len(outer.Call.Args) {
				b.resumeArg = outer.Call.Args[i]
			}
		}
		var outcome func(v ssa.Value, blk *ssa.BasicBlock, depth int)
		outcome = func(v ssa.Value, blk *ssa.BasicBlock, depth int) {
			if phi, ok := v.(*ssa.Phi); ok && depth < 3 {
				for i, ev := range phi.Edges {
					outcome(ev, phi.Block().Preds[i], depth+1)
				}
				return
			}
			mayAccept, mayReject := true, true
			if b.isErr {
				switch {
				case core.IsNilConst(v):
					mayReject = false
				case c10BuildsError(v, newErr):
					mayAccept = false
				}
			} else if v == ssa.Value(inner) {
				return // the answer itself
			} else if c, ok := v.(*ssa.Const); ok && c.Value != nil && c.Value.Kind() == constant.Bool {
				if constant.BoolVal(c.Value) {
					mayReject = false
				} else {
					mayAccept = false
				}
			}
			edge := c10AcceptsEdge(blk, inner)
			if mayAccept && edge != 1 {
				b.acceptedOnly = false
			}
			if mayReject && edge != -1 {
				b.rejectedOnly = false
			}
		}
		for _, ret := range core.Returns(h) {
			outcome(ret.Results[0], ret.Block(), 0)
		}
		a = b
	}
	return a
}

// c10BuildsError: v is certainly a non-nil error: the result of newError (which returns a fresh *Error) or a fresh
// object converted to the interface.
func c10BuildsError(v ssa.Value, newErr *ssa.Function) bool {
	switch x := v.(type) {
	case *ssa.Call:
		return x.Call.StaticCallee() == newErr
	case *ssa.MakeInterface:
		_, fresh := x.X.(*ssa.Alloc)
		return fresh
	}
	return false
}

// implies: what taking the branch edge (cond, taken) in tryToResume says about the answer of Accepts.
func (a *c10AcceptAnswer) implies(cond ssa.Value, taken bool) (accepted, rejected bool) {
	for {
		if un, ok := cond.(*ssa.UnOp); ok && un.Op == token.NOT {
			cond, taken = un.X, !taken
			continue
		}
		break
	}
	if !a.isErr {
		if cond != ssa.Value(a.outer) {
			return false, false
		}
		return taken && a.acceptedOnly, !taken && a.rejectedOnly
	}
	bo, ok := cond.(*ssa.BinOp)
	if !ok || (bo.Op != token.EQL && bo.Op != token.NEQ) {
		return false, false
	}
	if !(bo.X == ssa.Value(a.outer) && core.IsNilConst(bo.Y)) && !(bo.Y == ssa.Value(a.outer) && core.IsNilConst(bo.X)) {
		return false, false
	}
	isNil := (bo.Op == token.EQL) == taken
	return isNil && a.acceptedOnly, !isNil && a.rejectedOnly
}

func c10R4(p *core.Program, r *core.Report) {
	// resume types
	var rtypes []string
	if pk := p.Pkg("flows/resumes"); pk != nil {
		sc := pk.Types.Scope()
		for _, nm := range sc.Names() {
			if c, ok := sc.Lookup(nm).(*types.Const); ok && strings.HasPrefix(nm, "Type") {
				if s, ok := constStringOf(c); ok {
					rtypes = append(rtypes, s)
				}
			}
		}
	}
	sort.Strings(rtypes)
	if !r.Require("resume_types", len(rtypes), 4) {
		return
	}
	waitIface := p.Interface("flows", "Wait")
	if waitIface == nil {
		r.Errorf("flows.Wait not found")
		return
	}
	table := map[string]map[string]string{}
	acceptedBy := map[string]int{}
	nW := 0
	for _, n := range p.Implementers(waitIface) {
		acc := p.Method(core.RelPkg(n.Obj().Pkg().Path()), n.Obj().Name(), "Accepts")
		if acc == nil || acc.Blocks == nil {
			continue
		}
		nW++
		wname := core.QualName(n)
		table[wname] = map[string]string{}
		hasTimeout := false
		core.EachInstr(acc, false, func(_ *ssa.Function, in ssa.Instruction) {
			if fa, ok := in.(*ssa.FieldAddr); ok && core.FieldAddrVar(fa).Name() == "timeout" {
				hasTimeout = true
			}
		})
		for _, rt := range rtypes {
			for _, to := range []bool{false, true} {
				if to && !hasTimeout {
					continue
				}
				cell := rt
				if hasTimeout {
					cell = fmt.Sprintf("%s,timeout=%v", rt, to)
				}
				result := ""
				isTypeCall := func(v ssa.Value) bool {
					c, ok := v.(*ssa.Call)
					return ok && c.Call.IsInvoke() && c.Call.Method.Name() == "Type"
				}
				isTimeoutLoad := func(v ssa.Value) bool {
					u, ok := v.(*ssa.UnOp)
					if !ok || u.Op != token.MUL {
						return false
					}
					fv := core.FieldAddrVar(u.X)
					return fv != nil && fv.Name() == "timeout"
				}
				decide := func(cond ssa.Value) core.AB {
					bo, ok := cond.(*ssa.BinOp)
					if !ok {
						return core.Unk
					}
					if isTypeCall(bo.X) || isTypeCall(bo.Y) {
						other := bo.Y
						if isTypeCall(bo.Y) {
							other = bo.X
						}
						if s, ok := core.ConstString(other); ok {
							eq := s == rt
							if bo.Op == token.EQL {
								return boolAB(eq)
							}
							if bo.Op == token.NEQ {
								return boolAB(!eq)
							}
						}
					}
					if isTimeoutLoad(bo.X) && core.IsNilConst(bo.Y) {
						if bo.Op == token.NEQ {
							return boolAB(to)
						}
						if bo.Op == token.EQL {
							return boolAB(!to)
						}
					}
					return core.Unk
				}
				undecided := false
				core.ExplorePaths(acc, core.PathRules{
					OnCall: func(s *core.PathState, c ssa.CallInstruction) []core.CallOutcome {
						// `resume type is one of these` written as a helper over a variadic list of constants
						g := c.Common().StaticCallee()
						if idx := c10MembershipHelper(g); idx >= 0 && idx < len(c.Common().Args) {
							if set, ok := c10ConstStrings(c.Common().Args[idx]); ok {
								in := false
								for _, k := range set {
									if k == rt {
										in = true
									}
								}
								return []core.CallOutcome{{Result: boolAB(in)}}
							}
						}
						return nil
					},
					OnBranch: func(s *core.PathState, cond ssa.Value) core.AB {
						d := decide(cond)
						if d == core.Unk {
							if v := s.Val(cond); v != core.Unk {
								return v
							}
							undecided = true
						}
						return d
					},
					OnExit: func(s *core.PathState, ret *ssa.Return, pan *ssa.Panic) {
						if ret == nil {
							result = "panic"
							return
						}
						v := s.Val(ret.Results[0])
						if v == core.Unk {
							v = decide(ret.Results[0])
						}
						if v == core.Unk {
							// a result variable: the value that flowed in over the edge this path took
							rv := ret.Results[0]
							for k := 0; k < 4; k++ {
								phi, ok := rv.(*ssa.Phi)
								if !ok {
									break
								}
								in := pathIncoming(s, phi)
								if in == nil {
									break
								}
								rv = in
							}
							if c, ok := rv.(*ssa.Const); ok && c.Value != nil {
								v = boolAB(c.Value.String() == "true")
							} else {
								v = decide(rv)
							}
						}
						if v == core.Unk {
							undecided = true
							return
						}
						nv := "reject"
						if v == core.True {
							nv = "accept"
						}
						if result != "" && result != nv {
							undecided = true
						}
						result = nv
					},
				})
				if undecided || result == "" {
					r.Unknown("R4", wname+".Accepts/"+cell, p.Pos(acc.Pos()), "the accept decision for this cell could not be evaluated over the finite domain")
					continue
				}
				table[wname][cell] = result
				r.OK("R4", wname+".Accepts/"+cell, p.Pos(acc.Pos()), result)
				if result == "accept" {
					acceptedBy[rt]++
				}
				if rt == "wait_timeout" && result == "accept" && !(hasTimeout && to) {
					r.Bad("R4", wname+".Accepts/timeout-needs-timeout", p.Pos(acc.Pos()), "a wait_timeout resume is accepted by a wait without a timeout: RouteTimeout dereferences wait.Timeout()")
				}
			}
		}
	}
	r.Require("wait_types", nW, 2)
	for _, rt := range rtypes {
		r.Check(acceptedBy[rt] > 0, "R4", "resume "+rt+"/accepted-by-some-wait", "-", fmt.Sprintf("accepted in %d cells", acceptedBy[rt]), "no wait accepts this resume type: it can never be applied")
	}
	r.Tables["accept_table"] = table
}

func boolAB(b bool) core.AB {
	if b {
		return core.True
	}
	return core.False
}

func constStringOf(c *types.Const) (string, bool) {
	v := c.Val()
	if v == nil || v.Kind().String() != "String" {
		return "", false
	}
	s := v.ExactString()
	if len(s) >= 2 && s[0] == '"' {
		s = s[1 : len(s)-1]
	}
	return s, true
}

// pathIncoming: the operand of phi for the predecessor through which the explored path last entered the phi's block.
func pathIncoming(s *core.PathState, phi *ssa.Phi) ssa.Value {
	b := phi.Block()
	for i := len(s.Blocks) - 1; i > 0; i-- {
		if s.Blocks[i] == b.Index {
			for k, pr := range b.Preds {
				if pr.Index == s.Blocks[i-1] {
					return phi.Edges[k]
				}
			}
			return nil
		}
	}
	return nil
}

// ---------------------------------------------------------------------------------------------- R7

// c10NodeUseAllowed: uses of PathLocation's node that are safe for a reason outside the function. key as reported.
var c10NodeUseAllowed = map[string]string{
	"(*flows/runs.run).nodeContext/PathLocation-node":   "nodeContext is only bound (ContextFunc(env, r.nodeContext)) by RootContext under `n != nil`, n being PathLocation's node of the same run in the same evaluation; the path does not change in between",
	"(*flows/runs.run).nodeContext/PathLocation-node#2": "see the first entry",
}

// c10DerefsParam: fn (or a callee it passes the parameter on to, depth-limited) invokes a method on parameter idx
// without a dominating nil test of it.
func c10DerefsParam(fn *ssa.Function, idx int, depth int) bool {
	if fn == nil || fn.Blocks == nil || idx >= len(fn.Params) || depth > 2 {
		return false
	}
	prm := fn.Params[idx]
	found := false
	core.EachInstr(fn, true, func(f *ssa.Function, in ssa.Instruction) {
		ci, ok := in.(ssa.CallInstruction)
		if !ok || found {
			return
		}
		com := ci.Common()
		val := func(v ssa.Value) bool {
			v = core.StripConv(v)
			if v == ssa.Value(prm) {
				return true
			}
			// captured by a function literal
			if fv, ok := v.(*ssa.FreeVar); ok && fv.Name() == prm.Name() {
				return true
			}
			return false
		}
		if com.IsInvoke() && val(com.Value) {
			if xNilGuard(in.Block(), com.Value) == "" {
				found = true
			}
			return
		}
		if g := com.StaticCallee(); g != nil && g.Blocks != nil {
			for k, a := range com.Args {
				if val(a) && xNilGuard(in.Block(), a) == "" && c10DerefsParam(g, k, depth+1) {
					found = true
				}
			}
		}
	})
	return found
}

func c10R7(p *core.Program, r *core.Report) {
	n := 0
	per := map[string]int{}
	for _, cs := range p.CallsToName("flows.Run.PathLocation", "flows/runs.run.PathLocation") {
		rel := core.RelPkg(core.FuncPkgPath(cs.Caller))
		if p.IsTestFile(cs.Pos()) || (rel != "flows/engine" && rel != "flows/runs") {
			continue
		}
		call, ok := cs.Instr.(*ssa.Call)
		if !ok || call.Referrers() == nil {
			continue
		}
		var node, errV *ssa.Extract
		for _, ref := range *call.Referrers() {
			if ex, ok := ref.(*ssa.Extract); ok {
				switch ex.Index {
				case 1:
					node = ex
				case 2:
					errV = ex
				}
			}
		}
		if node == nil || node.Referrers() == nil {
			continue
		}
		guardedAt := func(b *ssa.BasicBlock) bool {
			if xNilGuard(b, node) != "" {
				return true
			}
			if errV == nil {
				return false
			}
			for _, ce := range core.ControllingConds(b) {
				bo, ok := ce.Cond.(*ssa.BinOp)
				if !ok || !(core.IsNilConst(bo.X) || core.IsNilConst(bo.Y)) {
					continue
				}
				other := bo.X
				if core.IsNilConst(bo.X) {
					other = bo.Y
				}
				if other == ssa.Value(errV) && ((bo.Op == token.EQL && ce.Taken) || (bo.Op == token.NEQ && !ce.Taken)) {
					return true
				}
			}
			return false
		}
		// uses of the node, through phis
		seen := map[ssa.Value]bool{}
		var uses func(v ssa.Value)
		uses = func(v ssa.Value) {
			if seen[v] || v.Referrers() == nil {
				return
			}
			seen[v] = true
			for _, ref := range *v.Referrers() {
				switch x := ref.(type) {
				case *ssa.Phi:
					uses(x)
				case *ssa.MakeClosure:
					// captured: judged where the literal uses it (not followed)
				case ssa.CallInstruction:
					com := x.Common()
					bad := ""
					if com.IsInvoke() && com.Value == v {
						bad = com.Method.Name() + "() is invoked on it"
					} else if g := com.StaticCallee(); g != nil {
						for k, a := range com.Args {
							if a == v && c10DerefsParam(g, k, 0) {
								bad = "it is handed to " + g.Name() + ", which dereferences that parameter"
							}
						}
					}
					if bad == "" {
						continue
					}
					n++
					k := core.FuncName(rootFn(cs.Caller)) + "/PathLocation-node"
					per[k]++
					key := k
					if per[k] > 1 {
						key = fmt.Sprintf("%s#%d", k, per[k])
					}
					if reason, ok := c10NodeUseAllowed[key]; ok && !guardedAt(x.Block()) {
						r.OK("R7", key, p.Pos(x.Pos()), "listed: "+reason)
						continue
					}
					r.Check(guardedAt(x.Block()), "R7", key, p.Pos(x.Pos()), "under a test of PathLocation's error or of the node",
						"the node returned by PathLocation is used ("+bad+") without a test of the error returned with it: for a run located at a node that no longer exists this is a nil interface call — the resume panics instead of failing the run")
				}
			}
		}
		uses(node)
	}
	r.Require("pathlocation_node_uses", n, 2)
}

// c10MembershipHelper: g(resume, list...) answers whether resume.Type() is an element of its slice parameter — every
// `return true` lies under `X.Type() == list[i]` inside a loop over that parameter, every other return is false.
// Returns the index of the slice parameter, or -1.
func c10MembershipHelper(g *ssa.Function) int {
	if g == nil || g.Blocks == nil || g.Signature.Results().Len() != 1 {
		return -1
	}
	if b, ok := g.Signature.Results().At(0).Type().Underlying().(*types.Basic); !ok || b.Kind() != types.Bool {
		return -1
	}
	idx := -1
	for i, prm := range g.Params {
		if sl, ok := prm.Type().Underlying().(*types.Slice); ok {
			if b, ok := sl.Elem().Underlying().(*types.Basic); ok && b.Kind() == types.String {
				idx = i
			}
		}
	}
	if idx < 0 {
		return -1
	}
	list := g.Params[idx]
	sawTrue := false
	for _, ret := range core.Returns(g) {
		c, ok := ret.Results[0].(*ssa.Const)
		if !ok || c.Value == nil {
			return -1
		}
		if c.Value.String() != "true" {
			continue
		}
		sawTrue = true
		gated := false
		for _, ce := range core.ControllingConds(ret.Block()) {
			bo, ok := ce.Cond.(*ssa.BinOp)
			if !ok || bo.Op != token.EQL || !ce.Taken {
				continue
			}
			isType := func(v ssa.Value) bool {
				cc, ok := v.(*ssa.Call)
				return ok && cc.Call.IsInvoke() && cc.Call.Method.Name() == "Type"
			}
			isElem := func(v ssa.Value) bool {
				ld, ok := v.(*ssa.UnOp)
				if !ok {
					return false
				}
				ia, ok := ld.X.(*ssa.IndexAddr)
				return ok && ia.X == ssa.Value(list)
			}
			if (isType(bo.X) && isElem(bo.Y)) || (isType(bo.Y) && isElem(bo.X)) {
				gated = true
			}
		}
		if !gated {
			return -1
		}
	}
	if !sawTrue {
		return -1
	}
	return idx
}

// c10ConstStrings: the constant strings of a variadic argument list built at the call site.
func c10ConstStrings(v ssa.Value) ([]string, bool) {
	if core.IsNilConst(v) {
		return nil, true
	}
	sl, ok := v.(*ssa.Slice)
	if !ok {
		return nil, false
	}
	al, ok := sl.X.(*ssa.Alloc)
	if !ok || al.Referrers() == nil {
		return nil, false
	}
	var out []string
	for _, ref := range *al.Referrers() {
		ia, ok := ref.(*ssa.IndexAddr)
		if !ok || ia.Referrers() == nil {
			continue
		}
		for _, r2 := range *ia.Referrers() {
			if st, ok := r2.(*ssa.Store); ok && st.Addr == ssa.Value(ia) {
				sc, isC := core.ConstString(st.Val)
				if !isC {
					return nil, false
				}
				out = append(out, sc)
			}
		}
	}
	return out, true
}

// ---------------------------------------------------------------------------------------------- R8

// c10R8: for every branch on `E != nil` / `E == nil` where E is a phi of error type: an incoming value V that has its
// own, different nil test whose failing (non-nil) side can reach this branch is a stale error.
func c10R8(p *core.Program, r *core.Report) {
	n := 0
	ord := map[*ssa.Function]int{}
	for _, fn := range p.ModuleFunctions() {
		rel := core.RelPkg(core.FuncPkgPath(fn))
		if rel != "flows" && rel != "flows/runs" && rel != "flows/engine" {
			continue
		}
		core.EachInstr(fn, false, func(_ *ssa.Function, in ssa.Instruction) {
			iff, ok := in.(*ssa.If)
			if !ok {
				return
			}
			bo, ok := iff.Cond.(*ssa.BinOp)
			if !ok || (bo.Op != token.NEQ && bo.Op != token.EQL) || !core.IsNilConst(bo.Y) {
				return
			}
			phi, ok := bo.X.(*ssa.Phi)
			if !ok || !isErrorType(phi.Type()) {
				return
			}
			n++
			ord[fn]++
			var leaves []ssa.Value
			seen := map[ssa.Value]bool{}
			var walk func(v ssa.Value)
			walk = func(v ssa.Value) {
				if seen[v] {
					return
				}
				seen[v] = true
				if ph, ok := v.(*ssa.Phi); ok {
					for _, e := range ph.Edges {
						walk(e)
					}
					return
				}
				leaves = append(leaves, v)
			}
			walk(phi)
			stale := ""
			for _, v := range leaves {
				if core.IsNilConst(v) || v.Referrers() == nil {
					continue
				}
				for _, ref := range *v.Referrers() {
					b2, ok := ref.(*ssa.BinOp)
					if !ok || b2 == bo || (b2.Op != token.NEQ && b2.Op != token.EQL) || !core.IsNilConst(b2.Y) || b2.Referrers() == nil {
						continue
					}
					for _, r2 := range *b2.Referrers() {
						if2, ok := r2.(*ssa.If)
						if !ok {
							continue
						}
						failing := if2.Block().Succs[0]
						if b2.Op == token.EQL {
							failing = if2.Block().Succs[1]
						}
						if failing == iff.Block() || core.Reachable(failing, nil)[iff.Block()] {
							stale = p.Pos(b2.Pos())
						}
					}
				}
			}
			r.Check(stale == "", "R8", fmt.Sprintf("%s/merged-error-test#%d", core.FuncName(fn), ord[fn]), p.Pos(bo.Pos()), "no incoming error value was tested and tolerated before", "this test also sees an error that was already tested at "+stale+" and deliberately not returned there: a tolerated failure (missing asset) is turned into a Go error after all")
		})
	}
	r.Count("merged_error_tests", n)
}
