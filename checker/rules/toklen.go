package rules

import (
	"fmt"
	"go/types"
	"path/filepath"
	"regexp"
	"strings"

	"golang.org/x/tools/go/ssa"

	"verif/checker/core"
)

// The text of a parse-tree context whose grammar alternative is one lexer token is a word of that token's lexer rule
// (the visitors only run on a tree that parsed without a syntax error: every Parse entry point returns the listener's
// error before visiting). Its minimum length is the length of the shortest word of the rule, computed from the .g4
// file the context type was generated from. The value may reach the site through a parameter of an unexported
// function that is only ever called directly: the bound is the minimum over its call sites.

type tokenText struct {
	p        *core.Program
	grammars map[string]*g4Grammar // generated package path -> grammar
	gfile    map[string]string
	minLen   map[string]int64 // "<file>/<TOKEN>"
	asValue  map[*ssa.Function]bool
}

var tokText *tokenText

func tokenTextFor(p *core.Program) *tokenText {
	if tokText != nil && tokText.p == p {
		return tokText
	}
	t := &tokenText{p: p, grammars: map[string]*g4Grammar{}, gfile: map[string]string{}, minLen: map[string]int64{}}
	tokText = t
	return t
}

var generatedFrom = regexp.MustCompile(`Code generated from (\S+\.g4) by ANTLR`)

func (t *tokenText) grammarOf(pkgPath string) (*g4Grammar, string) {
	if g, ok := t.grammars[pkgPath]; ok {
		return g, t.gfile[pkgPath]
	}
	t.grammars[pkgPath] = nil
	pk := t.p.ByPkg[pkgPath]
	if pk == nil {
		return nil, ""
	}
	for _, f := range pk.Syntax {
		for _, cg := range f.Comments {
			if m := generatedFrom.FindStringSubmatch(cg.Text()); m != nil {
				file := filepath.Base(m[1])
				if g, err := parseG4(filepath.Join(t.p.Repo, "antlr", file)); err == nil {
					t.grammars[pkgPath], t.gfile[pkgPath] = g, file
					return g, file
				}
			}
		}
	}
	return nil, ""
}

// shortest word of a lexer rule
func (a *nfa) shortest() int64 {
	dist := map[int]int64{a.start: 0}
	queue := []int{a.start}
	for len(queue) > 0 {
		// 0-1 BFS kept simple: relax until fixpoint (rules are tiny)
		s := queue[0]
		queue = queue[1:]
		for _, e := range a.eps[s] {
			if d, ok := dist[e]; !ok || dist[s] < d {
				dist[e] = dist[s]
				queue = append(queue, e)
			}
		}
		for _, e := range a.trans[s] {
			if e.on == 0 {
				continue
			}
			if d, ok := dist[e.to]; !ok || dist[s]+1 < d {
				dist[e.to] = dist[s] + 1
				queue = append(queue, e.to)
			}
		}
	}
	if d, ok := dist[a.accept]; ok {
		return d
	}
	return 0
}

func (t *tokenText) tokenMinLen(file, tok string) int64 {
	k := file + "/" + tok
	if n, ok := t.minLen[k]; ok {
		return n
	}
	t.minLen[k] = 0
	body, err := grammarRule(t.p.Repo, file, tok)
	if err != nil {
		return 0
	}
	a, err := parseLexRule(body, '"')
	if err != nil {
		return 0
	}
	t.minLen[k] = a.shortest()
	return t.minLen[k]
}

// usedAsValue: functions referenced other than as the callee of a direct call.
func (t *tokenText) usedAsValue(f *ssa.Function) bool {
	if t.asValue == nil {
		t.asValue = map[*ssa.Function]bool{}
		for _, fn := range t.p.ModuleFunctions() {
			core.EachInstr(fn, true, func(_ *ssa.Function, in ssa.Instruction) {
				var callee ssa.Value
				if ci, ok := in.(ssa.CallInstruction); ok && !ci.Common().IsInvoke() {
					callee = ci.Common().Value
				}
				for _, op := range in.Operands(nil) {
					if g, ok := (*op).(*ssa.Function); ok && (*op != callee || countOperand(in, g) > 1) {
						t.asValue[g] = true
					}
				}
			})
		}
	}
	return t.asValue[f]
}

func countOperand(in ssa.Instruction, g *ssa.Function) int {
	n := 0
	for _, op := range in.Operands(nil) {
		if *op == ssa.Value(g) {
			n++
		}
	}
	return n
}

// contextMinLen: typ is *<Label>Context of a generated parser package whose alternative #<label> is one lexer token.
func (t *tokenText) contextMinLen(typ types.Type) (int64, string) {
	ptr, ok := typ.(*types.Pointer)
	if !ok {
		return 0, ""
	}
	named, ok := ptr.Elem().(*types.Named)
	if !ok || named.Obj().Pkg() == nil || !strings.HasSuffix(named.Obj().Name(), "Context") {
		return 0, ""
	}
	g, file := t.grammarOf(named.Obj().Pkg().Path())
	if g == nil {
		return 0, ""
	}
	label := strings.TrimSuffix(named.Obj().Name(), "Context")
	for _, rule := range g.order {
		if a := g.alt(rule, label); a != nil {
			if len(a.refs) == 0 && len(a.toks) == 1 && a.body == a.toks[0] {
				if n := t.tokenMinLen(file, a.toks[0]); n > 0 {
					return n, fmt.Sprintf("text of a %s token (%s: the shortest word of the lexer rule has %d characters)", a.toks[0], file, n)
				}
			}
			return 0, ""
		}
	}
	return 0, ""
}

// lowerBound: a lower bound of len(v) that follows from where v comes from (0 = nothing known).
func (t *tokenText) lowerBound(v ssa.Value, depth int) (int64, string) {
	v = core.StripConv(v)
	switch x := v.(type) {
	case *ssa.Call:
		if x.Call.IsInvoke() || len(x.Call.Args) != 1 {
			return 0, ""
		}
		callee := x.Call.StaticCallee()
		if callee == nil || callee.Name() != "GetText" {
			return 0, ""
		}
		// the receiver is the context itself or the address of a base context embedded in it
		for recv := x.Call.Args[0]; recv != nil; {
			if n, w := t.contextMinLen(recv.Type()); n > 0 {
				return n, w
			}
			fa, ok := recv.(*ssa.FieldAddr)
			if !ok {
				break
			}
			st, ok := fa.X.Type().Underlying().(*types.Pointer).Elem().Underlying().(*types.Struct)
			if !ok || !st.Field(fa.Field).Embedded() {
				break
			}
			recv = fa.X
		}
	case *ssa.Parameter:
		f := x.Parent()
		if depth >= 2 || f == nil || f.Parent() != nil || f.Object() == nil || f.Object().Exported() || t.usedAsValue(f) {
			return 0, ""
		}
		idx := -1
		for i, prm := range f.Params {
			if prm == x {
				idx = i
			}
		}
		sites := t.p.CallsTo(f)
		if idx < 0 || len(sites) == 0 {
			return 0, ""
		}
		best, why := int64(-1), ""
		for _, cs := range sites {
			if idx >= len(cs.Common().Args) {
				return 0, ""
			}
			n, w := t.lowerBound(cs.Common().Args[idx], depth+1)
			if n == 0 {
				return 0, ""
			}
			if best < 0 || n < best {
				best, why = n, w
			}
		}
		return best, "every caller passes the " + why
	}
	return 0, ""
}
