package rules

import (
	"fmt"
	"go/token"
	"go/types"
	"strings"

	"golang.org/x/tools/go/ssa"

	"verif/checker/core"
)

// Nullable X values: an excellent value of interface type types.XValue may be nil (that is how null is represented),
// so a method invoked on it must be on a value shown non-nil: under the false edge of types.IsNil(v) / utils.IsNil(v)
// or v == nil, after a successful type test, or because the value was produced non-nil (a constructor result wrapped
// in the interface, a value of a concrete X type).

// xNonNilProducer: v is, by construction, a non-nil XValue.
func xNonNilProducer(v ssa.Value, depth int) (bool, string) {
	if depth > 4 {
		return false, ""
	}
	switch x := v.(type) {
	case *ssa.MakeInterface:
		// a concrete value wrapped in the interface: non-nil interface; a nil *XText inside would still be caught by the
		// callee's own receiver use, so require a pointer that comes from an allocation, a constructor call or a global
		switch y := x.X.(type) {
		case *ssa.Alloc:
			return true, "freshly allocated value"
		case *ssa.Call:
			if f := y.Call.StaticCallee(); f != nil && (strings.HasPrefix(f.Name(), "NewX") || strings.HasPrefix(f.Name(), "newX") || strings.HasPrefix(f.Name(), "New")) {
				return true, "result of constructor " + f.Name()
			}
		case *ssa.UnOp:
			if g, ok := y.X.(*ssa.Global); ok {
				return true, "package-level value " + g.Name()
			}
		case *ssa.Parameter:
			// the method's own receiver
			if y.Parent() != nil && len(y.Parent().Params) > 0 && y.Parent().Params[0] == y && y.Parent().Signature.Recv() != nil {
				return true, "the method's receiver"
			}
		}
		if _, isPtr := x.X.Type().Underlying().(*types.Pointer); !isPtr {
			return true, "non-pointer concrete value"
		}
	case *ssa.Phi:
		whys := []string{}
		for _, e := range x.Edges {
			ok, w := xNonNilProducer(e, depth+1)
			if !ok {
				return false, ""
			}
			whys = append(whys, w)
		}
		return true, strings.Join(uniq(whys), " / ")
	case *ssa.ChangeInterface:
		return xNonNilProducer(x.X, depth+1)
	}
	return false, ""
}

// xNilGuard: a dominating condition shows v non-nil.
func xNilGuard(b *ssa.BasicBlock, v ssa.Value) string {
	same := func(a ssa.Value) bool {
		a = core.StripConv(a)
		if ci, ok := a.(*ssa.ChangeInterface); ok {
			a = ci.X
		}
		if mi, ok := a.(*ssa.MakeInterface); ok {
			a = mi.X
		}
		return a == v || canon(a) == canon(v)
	}
	var nilTest func(cond ssa.Value, taken bool) string
	nilTest = func(cond ssa.Value, taken bool) string {
		switch c := cond.(type) {
		case *ssa.UnOp:
			if c.Op == token.NOT {
				return nilTest(c.X, !taken)
			}
		case *ssa.BinOp:
			if (c.Op == token.EQL || c.Op == token.NEQ) && (core.IsNilConst(c.X) || core.IsNilConst(c.Y)) {
				other := c.X
				if core.IsNilConst(c.X) {
					other = c.Y
				}
				if same(other) && (c.Op == token.NEQ) == taken {
					return "v != nil"
				}
			}
		case *ssa.Call:
			if o := core.CalleeObj(&c.Call); o != nil && len(c.Call.Args) >= 1 && !taken {
				switch core.ObjName(o) {
				case "excellent/types.IsNil", "utils.IsNil", "excellent/types.IsXError":
					if core.ObjName(o) != "excellent/types.IsXError" && same(c.Call.Args[0]) {
						return "!" + o.Name() + "(v)"
					}
				}
			}
			if o := core.CalleeObj(&c.Call); o != nil && len(c.Call.Args) >= 1 && taken && core.ObjName(o) == "excellent/types.IsXError" && same(c.Call.Args[0]) {
				return "IsXError(v)"
			}
		case *ssa.Extract:
			// v, ok := x.(T) with ok taken: handled by the type system (v is then concrete)
		}
		return ""
	}
	for _, ce := range core.ControllingConds(b) {
		if g := nilTest(ce.Cond, ce.Taken); g != "" {
			return g
		}
	}
	return ""
}

func xNilRule(p *core.Program, r *core.Report, fns []*ssa.Function, rule string, allowed map[string]string) int {
	xv := p.Interface("excellent/types", "XValue")
	if xv == nil {
		r.Errorf("types.XValue not found")
		return 0
	}
	n := 0
	per := map[string]int{}
	for _, fn := range fns {
		for _, cs := range core.Calls(fn, false) {
			com := cs.Common()
			if !com.IsInvoke() {
				continue
			}
			it, ok := com.Value.Type().Underlying().(*types.Interface)
			if !ok || !types.Identical(it, xv) {
				continue
			}
			n++
			k := core.FuncName(rootFn(fn)) + "/" + com.Method.Name()
			per[k]++
			key := k
			if per[k] > 1 {
				key = fmt.Sprintf("%s#%d", k, per[k])
			}
			if ok, why := xNonNilProducer(com.Value, 0); ok {
				r.OK(rule, key, p.Pos(cs.Pos()), "non-nil by construction: "+why)
				continue
			}
			if g := xNilGuard(cs.Instr.Block(), com.Value); g != "" {
				r.OK(rule, key, p.Pos(cs.Pos()), "guarded: "+g)
				continue
			}
			if prm, ok := com.Value.(*ssa.Parameter); ok {
				f := prm.Parent()
				idx := -1
				for i, fp := range f.Params {
					if fp == prm {
						idx = i
					}
				}
				if f.Parent() == nil && f.Object() != nil && !f.Object().Exported() && idx >= 0 && !tokenTextFor(p).usedAsValue(f) {
					sites := p.CallsTo(f)
					all := len(sites) > 0
					for _, site := range sites {
						if idx >= len(site.Common().Args) {
							all = false
							continue
						}
						a := site.Common().Args[idx]
						if ok, _ := xNonNilProducer(a, 0); ok {
							continue
						}
						if xNilGuard(site.Instr.Block(), a) == "" {
							all = false
						}
					}
					if all {
						r.OK(rule, key, p.Pos(cs.Pos()), fmt.Sprintf("parameter of an unexported function: non-nil at each of its %d call sites", len(sites)))
						continue
					}
				}
			}
			if reason, ok := allowed[key]; ok {
				r.OK(rule, key, p.Pos(cs.Pos()), "listed: "+reason)
				continue
			}
			r.Bad(rule, key, p.Pos(cs.Pos()), fmt.Sprintf("%s is invoked on %s, an XValue that may be nil (null) here: no dominating IsNil / nil test and not produced non-nil — a nil pointer dereference instead of an error value", com.Method.Name(), canonShort(com.Value)))
		}
	}
	return n
}
