package rules

import (
	"fmt"
	"go/ast"
	"go/token"
	"go/types"
	"os"
	"path/filepath"
	"regexp"
	"sort"
	"strconv"
	"strings"

	"golang.org/x/tools/go/ssa"

	"verif/checker/core"
)

func init() { register("C11", checkC11) }

type g4Alt struct {
	label  string
	tokens []string // operator tokens of the alternative (op = (A | B) or a single token between/before expressions)
}

// parseExcellentGrammar reads token literals and the operator alternatives of the `expression` rule.
func parseExcellentGrammar(repo string) (map[string]string, []g4Alt, error) {
	b, err := os.ReadFile(filepath.Join(repo, "antlr", "Excellent3.g4"))
	if err != nil {
		return nil, nil, err
	}
	src := string(b)
	toks := map[string]string{}
	for _, m := range regexp.MustCompile(`(?m)^([A-Z_]+):\s*'((?:[^'\\]|\\.)+)'\s*;`).FindAllStringSubmatch(src, -1) {
		toks[m[1]] = strings.ReplaceAll(m[2], `\\`, `\`)
	}
	var alts []g4Alt
	re := regexp.MustCompile(`(?m)^\s*\|?\s*(.*?)#\s*([A-Za-z]+)\s*;?\s*$`)
	for _, m := range re.FindAllStringSubmatch(src, -1) {
		body, label := m[1], m[2]
		var ts []string
		if g := regexp.MustCompile(`op\s*=\s*\(([^)]*)\)`).FindStringSubmatch(body); g != nil {
			for _, t := range strings.Split(g[1], "|") {
				ts = append(ts, strings.TrimSpace(t))
			}
		} else {
			for _, w := range strings.Fields(body) {
				if _, isTok := toks[w]; isTok && w != "LPAREN" && w != "RPAREN" {
					ts = append(ts, w)
				}
			}
		}
		alts = append(alts, g4Alt{label, ts})
	}
	return toks, alts, nil
}

// operatorDocs: operators.<Var> -> documented symbol, from the `@operator name "sym"` doc tags.
func operatorDocs(p *core.Program) map[string]string {
	out := map[string]string{}
	pk := p.Pkg("excellent/operators")
	if pk == nil {
		return out
	}
	re := regexp.MustCompile(`@operator\s+\w+\s+"([^"]+)"`)
	for _, f := range pk.Syntax {
		for _, d := range f.Decls {
			gd, ok := d.(*ast.GenDecl)
			if !ok || gd.Tok != token.VAR || gd.Doc == nil {
				continue
			}
			m := re.FindStringSubmatch(gd.Doc.Text())
			if m == nil {
				continue
			}
			sym := strings.Fields(m[1])[0]
			for _, sp := range gd.Specs {
				for _, nm := range sp.(*ast.ValueSpec).Names {
					out[nm.Name] = sym
				}
			}
		}
	}
	return out
}

func checkC11(p *core.Program, r *core.Report) {
	r.Rule("R1", "four-way operator table: for each of the 13 operators the grammar token's literal, the operator text in the node's String() format, the documented symbol of the operators function its Evaluate calls, and the token accessor under which the visitor builds the node all agree")
	r.Rule("R2", "printers are complete and ordered: each node's String() prints every Expression field exactly once, in declaration order, via its own String(); Visit walks the same fields; VisitParentheses builds an explicit Parentheses node whose String() emits both brackets")
	r.Rule("R7", "a path suffix is removed as a suffix: in the packages that rewrite templates (flows/definition/migrations, excellent/refactor, excellent) no strings.Trim/TrimLeft/TrimRight is given a constant cutset of several distinct non-blank characters — that is a prefix or suffix written as a character set (`TrimRight(path, \"[*]\")` also eats the `]` of `cases[*]`... `[0]`), and the template at that path is then not rewritten")
	c11R7(p, r)
	r.Rule("R3", "literals round-trip by construction: TextLiteral.String is strconv.Quote of the full native value, VisitTextLiteral uses strconv.Unquote, NumberLiteral.String derives from the decimal's String")
	r.Rule("R4", "refactor plumbing: refactor.Template copies BODY tokens unchanged and scans with unescapeBody=false; wrapExpression is the inverse of what the scanner strips; the original text is kept when the transformer reports no change; ContextRefRename's changed flag is monotone and the rename is guarded by EqualFold on a *ContextReference")
	r.Rule("R5", "identifier text is printed as it was read: the text fields of a node (ContextReference.Name, DotLookup.Lookup, AnonFunction.Args) reach the printed string only through formatting (concatenation, Sprintf, Join), never through a call that can alter them — except a listed normalisation that every consumer of the field is insensitive to")
	r.Rule("R6", "that insensitivity: the printer lower-cases context references, so every Scope.get a reference can be resolved by is XObject.Get (exact, then case-insensitive) or the function table's Lookup (lower-cases its argument); both are checked to compare lower-cased names")
	r.Assumption("equality of evaluation results is not decided; ANTLR's precedence climbing follows the order of the grammar's alternatives")
	r.Assumption("R5/R6: a root context with two keys differing only in case (which the engine never builds) would still be resolved differently after lower-casing")

	toks, alts, err := parseExcellentGrammar(p.Repo)
	if err != nil {
		r.Errorf("%v", err)
		return
	}
	docs := operatorDocs(p)
	if !r.Require("documented_operators", len(docs), 13) {
		return
	}
	exprIface := p.Interface("excellent", "Expression")
	if exprIface == nil {
		r.Errorf("excellent.Expression not found")
		return
	}
	nodes := []*types.Named{}
	for _, n := range p.Implementers(exprIface) {
		if core.RelPkg(n.Obj().Pkg().Path()) == "excellent" {
			nodes = append(nodes, n)
		}
	}
	if !r.Require("expression_node_types", len(nodes), 23) {
		return
	}

	// ---------------------------------------------------------- per node: String format / Evaluate operator / fields
	type nodeInfo struct {
		opText   string
		evalSym  string
		evalFn   string
		exprFlds []string
	}
	info := map[string]*nodeInfo{}
	for _, n := range nodes {
		name := n.Obj().Name()
		ni := &nodeInfo{}
		info[name] = ni
		st := n.Underlying().(*types.Struct)
		for i := 0; i < st.NumFields(); i++ {
			if core.ShortType(st.Field(i).Type()) == "excellent.Expression" {
				ni.exprFlds = append(ni.exprFlds, st.Field(i).Name())
			}
		}
		strFn := p.Method("excellent", name, "String")
		evalFn := p.Method("excellent", name, "Evaluate")
		visitFn := p.Method("excellent", name, "Visit")
		if strFn == nil || evalFn == nil {
			r.Errorf("node %s lacks String/Evaluate", name)
			continue
		}
		// Evaluate: the operators function called
		for _, cs := range core.Calls(evalFn, false) {
			// operators are package-level vars holding closures: the callee is a load of a global
			if ld, ok := cs.Common().Value.(*ssa.UnOp); ok {
				if g, ok := ld.X.(*ssa.Global); ok && g.Pkg != nil && core.RelPkg(g.Pkg.Pkg.Path()) == "excellent/operators" {
					ni.evalFn = g.Name()
					ni.evalSym = docs[g.Name()]
				}
			}
			if f := cs.Common().StaticCallee(); f != nil && core.RelPkg(core.FuncPkgPath(f)) == "excellent/operators" {
				ni.evalFn = f.Name()
				ni.evalSym = docs[f.Name()]
			}
		}
		// String: the printed template (constants, +, Sprintf — computed by the symbolic string evaluator) and the order in
		// which the fields' own String() results appear in it
		for _, alt := range c11PrintedTemplates(p, strFn) {
			f, argFields := alt.format, alt.fields
			cs := strFn
			if len(ni.exprFlds) == 2 && strings.Count(f, "%s") == 2 {
				ni.opText = strings.TrimSpace(strings.ReplaceAll(f, "%s", ""))
			}
			if len(ni.exprFlds) == 1 && strings.Count(f, "%s") == 1 && name == "Negation" {
				ni.opText = strings.TrimSpace(strings.ReplaceAll(f, "%s", ""))
			}
			// R2 order/completeness for nodes whose fields are all expressions
			if len(ni.exprFlds) > 0 && len(ni.exprFlds) == n.Underlying().(*types.Struct).NumFields() {
				want := strings.Join(ni.exprFlds, ",")
				got := strings.Join(argFields, ",")
				r.Check(got == want && strings.Count(f, "%s") == len(ni.exprFlds), "R2", name+".String/fields-in-order", p.Pos(cs.Pos()), "prints "+want+" in declaration order",
					fmt.Sprintf("%s.String prints fields [%s] with format %q, expected [%s] each exactly once in declaration order: the printed expression swaps or drops operands", name, got, f, want))
			}
			if name == "Parentheses" {
				r.Check(f == "(%s)", "R2", "Parentheses.String/brackets", p.Pos(cs.Pos()), "\"(%s)\"", "Parentheses.String does not emit both brackets: explicit grouping is lost when printing")
			}
		}
		// Visit covers the same expression fields
		if visitFn != nil && len(ni.exprFlds) > 0 {
			visited := map[string]bool{}
			// a field is descended into when Visit is invoked on its value (or on the elements of it), not when it is
			// merely read or handed to the callback itself
			for _, cs := range core.Calls(visitFn, false) {
				c := cs.Common()
				if !c.IsInvoke() || c.Method.Name() != "Visit" {
					continue
				}
				for w := range core.BackSlice(c.Value, nil) {
					if fa, ok := w.(*ssa.FieldAddr); ok {
						visited[core.FieldAddrVar(fa).Name()] = true
					}
				}
			}
			// ... or handing it to a helper of the package that invokes Visit on that parameter
			for _, cs := range core.Calls(visitFn, false) {
				c := cs.Common()
				g := c.StaticCallee()
				if c.IsInvoke() || g == nil || len(g.Blocks) == 0 || core.FuncPkgPath(g) != core.FuncPkgPath(visitFn) {
					continue
				}
				for i, a := range c.Args {
					if i >= len(g.Params) {
						continue
					}
					descends := false
					for _, gcs := range core.Calls(g, false) {
						gc := gcs.Common()
						if gc.IsInvoke() && gc.Method.Name() == "Visit" && core.BackSlice(gc.Value, nil)[ssa.Value(g.Params[i])] {
							descends = true
						}
					}
					if !descends {
						continue
					}
					for w := range core.BackSlice(a, nil) {
						if fa, ok := w.(*ssa.FieldAddr); ok {
							visited[core.FieldAddrVar(fa).Name()] = true
						}
					}
				}
			}
			missing := []string{}
			for _, f := range ni.exprFlds {
				if !visited[f] {
					missing = append(missing, f)
				}
			}
			r.Check(len(missing) == 0, "R2", name+".Visit/covers-fields", p.Pos(visitFn.Pos()), "visits "+strings.Join(ni.exprFlds, ","), name+".Visit does not descend into "+strings.Join(missing, ",")+": transformations (renames) miss references there")
		}
	}

	// ---------------------------------------------------------- visitor: token accessor -> node type
	built := map[string]string{} // node type -> token
	for _, alt := range alts {
		if len(alt.tokens) == 0 {
			continue
		}
		vm := p.Method("excellent", "visitor", "Visit"+strings.ToUpper(alt.label[:1])+alt.label[1:])
		if vm == nil {
			continue
		}
		// allocations of node structs and the accessor conditions controlling them
		core.EachInstr(vm, false, func(_ *ssa.Function, in ssa.Instruction) {
			al, ok := in.(*ssa.Alloc)
			if !ok || !al.Heap {
				return
			}
			nt, ok := al.Type().(*types.Pointer).Elem().(*types.Named)
			if !ok || info[nt.Obj().Name()] == nil {
				return
			}
			var taken []string
			var refused []string
			for _, ce := range core.ControllingConds(al.Block()) {
				bo, ok := ce.Cond.(*ssa.BinOp)
				if !ok || !(core.IsNilConst(bo.Y) || core.IsNilConst(bo.X)) {
					continue
				}
				other := bo.X
				if core.IsNilConst(bo.X) {
					other = bo.Y
				}
				c, ok := other.(*ssa.Call)
				if !ok {
					continue
				}
				acc := ""
				if f := c.Call.StaticCallee(); f != nil {
					acc = f.Name()
				}
				if _, isTok := toks[acc]; !isTok {
					continue
				}
				present := (bo.Op == token.NEQ) == ce.Taken
				if present {
					taken = append(taken, acc)
				} else {
					refused = append(refused, acc)
				}
			}
			tok := ""
			switch {
			case len(taken) == 1:
				tok = taken[0]
			case len(taken) == 0:
				// the default arm: the one token of the alternative that was not tested
				var rest []string
				for _, t := range alt.tokens {
					isRef := false
					for _, x := range refused {
						if x == t {
							isRef = true
						}
					}
					if !isRef {
						rest = append(rest, t)
					}
				}
				if len(rest) == 1 {
					tok = rest[0]
				} else {
					tok = "?" + strings.Join(rest, "|")
				}
			default:
				tok = "?" + strings.Join(taken, "&")
			}
			built[nt.Obj().Name()] = tok
		})
	}
	// ---------------------------------------------------------- the table
	var names []string
	for name, ni := range info {
		if ni.evalFn != "" && docs[ni.evalFn] != "" {
			names = append(names, name)
		}
	}
	sort.Strings(names)
	table := map[string]map[string]string{}
	nOps := 0
	for _, name := range names {
		ni := info[name]
		tok := built[name]
		lit := toks[tok]
		table[name] = map[string]string{"token": tok, "token_literal": lit, "string_text": ni.opText, "evaluate": ni.evalFn, "evaluate_symbol": ni.evalSym}
		nOps++
		ok := lit != "" && lit == ni.opText && ni.evalSym == ni.opText
		r.Check(ok, "R1", "operator "+name, p.Pos(p.NamedType("excellent", name).Obj().Pos()), fmt.Sprintf("%s: token %s '%s' = String %q = operators.%s %q", name, tok, lit, ni.opText, ni.evalFn, ni.evalSym),
			fmt.Sprintf("%s: the visitor builds it for token %s ('%s'), String() prints %q and Evaluate calls operators.%s (documented %q): the four tables disagree, so printing and re-parsing changes the operator applied", name, tok, lit, ni.opText, ni.evalFn, ni.evalSym))
	}
	r.Tables["operator_table"] = table
	r.Require("operator_nodes", nOps, 13)
	// Parentheses node is built explicitly
	vp := p.Method("excellent", "visitor", "VisitParentheses")
	if vp != nil {
		okP := false
		core.EachInstr(vp, false, func(_ *ssa.Function, in ssa.Instruction) {
			if al, ok := in.(*ssa.Alloc); ok && al.Heap {
				if nt, ok := al.Type().(*types.Pointer).Elem().(*types.Named); ok && nt.Obj().Name() == "Parentheses" {
					okP = true
				}
			}
		})
		r.Check(okP, "R2", "visitor.VisitParentheses/explicit-node", p.Pos(vp.Pos()), "builds a Parentheses node", "parentheses are not kept as an explicit node: token-faithful printing loses grouping")
	}

	// ---------------------------------------------------------- R3
	c11QuotePair(p, r, "R3")
	c11Identifiers(p, r, nodes)
	// R4b: a migration that rewrites templates hands every template to the rewriter: references are matched
	// case-insensitively there, so a textual pre-filter in front of it decides differently
	{
		nT := 0
		for _, cs := range p.CallsToName("excellent/refactor.Template") {
			if p.IsTestFile(cs.Pos()) || core.RelPkg(core.FuncPkgPath(cs.Caller)) != "flows/definition/migrations" {
				continue
			}
			nT++
			extra := ""
			for _, ce := range core.MayConds(cs.Instr.Block()) {
				extra = canonShort(ce.Cond) + " at " + p.Pos(ce.If.Pos())
			}
			r.Check(extra == "", "R4", core.FuncName(rootFn(cs.Caller))+"/every-template-rewritten", p.Pos(cs.Pos()), "refactor.Template is called unconditionally", "whether a template is handed to refactor.Template depends on "+extra+": the rewriter matches references case-insensitively, a textual pre-filter does not, so a reference such as @Webhook is left unrenamed and resolves to something else after the migration")
		}
		r.Require("migration_rewrite_sites", nT, 1)
		// ... and keeps what the rewriter returned: refactor.Template rewrites every expression it can parse and copies
		// the others, returning the rewritten text together with the error — a caller that falls back to the original
		// text when there is an error leaves the parseable references in that template unrenamed
		for _, cs := range p.CallsToName("excellent/refactor.Template") {
			if p.IsTestFile(cs.Pos()) || core.RelPkg(core.FuncPkgPath(cs.Caller)) != "flows/definition/migrations" {
				continue
			}
			call, ok := cs.Instr.(*ssa.Call)
			if !ok || cs.Caller.Signature.Results().Len() == 0 {
				continue
			}
			if bt, ok := cs.Caller.Signature.Results().At(0).Type().Underlying().(*types.Basic); !ok || bt.Info()&types.IsString == 0 {
				continue
			}
			bad := ""
			for _, ret := range core.Returns(cs.Caller) {
				if !core.Reachable(call.Block(), nil)[ret.Block()] && call.Block() != ret.Block() {
					continue
				}
				from := false
				for w := range core.BackSlice(ret.Results[0], nil) {
					if ex, ok := w.(*ssa.Extract); ok && ex.Tuple == ssa.Value(call) && ex.Index == 0 {
						from = true
					}
				}
				if !from {
					bad = p.Pos(ret.Pos())
				}
			}
			r.Check(bad == "", "R4", core.FuncName(rootFn(cs.Caller))+"/rewritten-text-kept", p.Pos(cs.Pos()), "every return after the rewrite returns the rewritten text", "the return at "+bad+" gives back something other than what refactor.Template returned: when one expression of a template does not parse, the references in its other expressions are left unrenamed")
		}
	}
	if nl := p.Method("excellent", "NumberLiteral", "String"); nl != nil {
		ok := false
		var follow func(fn *ssa.Function, depth int)
		follow = func(fn *ssa.Function, depth int) {
			if fn == nil || fn.Blocks == nil || depth > 3 {
				return
			}
			for _, cs := range core.Calls(fn, false) {
				if o := core.CalleeObj(cs.Common()); o != nil && core.ObjName(o) == "github.com/shopspring/decimal.Decimal.String" {
					ok = true
				}
				if f := cs.Common().StaticCallee(); f != nil && core.RelPkg(core.FuncPkgPath(f)) == "excellent/types" {
					follow(f, depth+1)
				}
			}
		}
		follow(nl, 0)
		r.Check(ok, "R3", "NumberLiteral.String/decimal.String", p.Pos(nl.Pos()), "derives from decimal.String()", "number literals are not printed with the decimal's exact String()")
	}

	// ---------------------------------------------------------- R4
	c11R4(p, r)
}

func c11R4(p *core.Program, r *core.Report) {
	tpl := p.Func("excellent/refactor", "Template")
	exp := p.Func("excellent/refactor", "expression")
	wrap := p.Func("excellent/refactor", "wrapExpression")
	ren := p.Func("excellent/refactor", "ContextRefRename")
	for n, f := range map[string]*ssa.Function{"Template": tpl, "expression": exp, "wrapExpression": wrap, "ContextRefRename": ren} {
		if f == nil || f.Blocks == nil {
			r.Errorf("refactor anchor %s not found", n)
			return
		}
	}
	// VisitTemplate(..., false, ...)
	okUn := false
	for _, cs := range core.Calls(tpl, false) {
		if o := core.CalleeObj(cs.Common()); o != nil && core.ObjName(o) == "excellent.VisitTemplate" {
			if c, ok := cs.Common().Args[2].(*ssa.Const); ok && c.Value != nil && c.Value.String() == "false" {
				okUn = true
			}
		}
	}
	r.Check(okUn, "R4", "refactor.Template/scans-without-unescaping", p.Pos(tpl.Pos()), "VisitTemplate(..., unescapeBody=false, ...)", "refactor.Template scans with @@ unescaping on: a rewritten template loses its escaped @ signs")
	// callback: BODY token written unchanged; other tokens via wrapExpression
	if len(tpl.AnonFuncs) >= 1 {
		cb := tpl.AnonFuncs[0]
		tokP := paramNamed(cb, "token")
		bodyOK, wrapOK := false, 0
		for _, cs := range core.Calls(cb, false) {
			o := core.CalleeObj(cs.Common())
			if o != nil && core.ObjName(o) == "strings.Builder.WriteString" {
				a := cs.Common().Args[1]
				if a == ssa.Value(tokP) {
					// on the BODY arm (tokenType == 0)
					for _, ce := range core.ControllingConds(cs.Instr.Block()) {
						if bo, ok := ce.Cond.(*ssa.BinOp); ok && bo.Op == token.EQL && ce.Taken {
							if k, isC := core.ConstInt(bo.Y); isC && k == 0 {
								bodyOK = true
							}
						}
					}
				} else if c, ok := a.(*ssa.Call); ok && c.Call.StaticCallee() == wrap {
					wrapOK++
				}
			}
		}
		r.Check(bodyOK, "R4", "refactor.Template/body-copied-unchanged", p.Pos(cb.Pos()), "BODY tokens are written as scanned", "text outside expressions is not copied unchanged by refactor.Template")
		// once the expression has been handed to the rewriter, every way out of the callback first writes a re-wrapped
		// expression (the rewritten one, or the original on the error path)
		isWrapWrite := func(in ssa.Instruction) bool {
			ci, ok := in.(ssa.CallInstruction)
			if !ok {
				return false
			}
			o := core.CalleeObj(ci.Common())
			if o == nil || core.ObjName(o) != "strings.Builder.WriteString" {
				return false
			}
			c, ok := ci.Common().Args[1].(*ssa.Call)
			return ok && c.Call.StaticCallee() == wrap
		}
		written := core.ForwardMust(cb, false, func(in ssa.Instruction, before bool) bool { return before || isWrapWrite(in) }, nil)
		var expCall ssa.Instruction
		for _, cs := range core.Calls(cb, false) {
			if cs.Common().StaticCallee() == exp {
				expCall = cs.Instr
			}
		}
		allWrapped := expCall != nil && wrapOK >= 1
		for _, ret := range core.Returns(cb) {
			if expCall != nil && core.InstrDominates(expCall, ret) && !written.At(ret) {
				allWrapped = false
			}
		}
		r.Check(allWrapped, "R4", "refactor.Template/expressions-rewrapped", p.Pos(cb.Pos()), "every return after the rewriter ran is preceded by a write of wrapExpression(...) (rewritten, or original on error)", "some path through refactor.Template's callback leaves an identifier/expression token without writing it back re-wrapped: the expression disappears from the template")
	}
	// wrapExpression: IDENTIFIER -> "@"+token ; else "@("+token+")"
	{
		tokP := paramNamed(wrap, "token")
		idOK, exOK := false, false
		for _, ret := range core.Returns(wrap) {
			parts := concatParts(ret.Results[0])
			onIdent := false
			for _, ce := range core.ControllingConds(ret.Block()) {
				if bo, ok := ce.Cond.(*ssa.BinOp); ok && bo.Op == token.EQL && ce.Taken {
					if k, isC := core.ConstInt(bo.Y); isC && k == 1 {
						onIdent = true
					}
				}
			}
			s := ""
			for _, pt := range parts {
				if pt == ssa.Value(tokP) {
					s += "<token>"
				} else if c, ok := core.ConstString(pt); ok {
					s += c
				} else {
					s += "?"
				}
			}
			if onIdent && s == "@<token>" {
				idOK = true
			}
			if !onIdent && s == "@(<token>)" {
				exOK = true
			}
		}
		r.Check(idOK && exOK, "R4", "refactor.wrapExpression/inverse-of-scanner", p.Pos(wrap.Pos()), "IDENTIFIER -> @token, EXPRESSION -> @(token)", "wrapExpression does not restore exactly what the scanner strips (@ for identifiers, @( ) for expressions)")
	}
	// expression(): parsed.String() only when tx(parsed) is true, else the original parameter
	{
		srcP := exp.Params[0]
		var txCall *ssa.Call
		for _, cs := range core.Calls(exp, false) {
			if prm, ok := cs.Common().Value.(*ssa.Parameter); ok && prm.Name() == "tx" {
				txCall, _ = cs.Instr.(*ssa.Call)
			}
		}
		keepOK, printOK := false, false
		for _, ret := range core.Returns(exp) {
			if !core.IsNilConst(ret.Results[1]) {
				continue
			}
			edge := 0
			for _, ce := range core.ControllingConds(ret.Block()) {
				if txCall != nil && ce.Cond == ssa.Value(txCall) {
					if ce.Taken {
						edge = 1
					} else {
						edge = -1
					}
				}
			}
			if ret.Results[0] == ssa.Value(srcP) && edge == -1 {
				keepOK = true
			}
			if c, ok := ret.Results[0].(*ssa.Call); ok && c.Call.IsInvoke() && c.Call.Method.Name() == "String" && edge == 1 {
				printOK = true
			}
		}
		r.Check(keepOK && printOK, "R4", "refactor.expression/keeps-original-unless-changed", p.Pos(exp.Pos()), "tx true -> parsed.String(), tx false -> the original text", "refactor.expression does not keep the original text exactly when the transformer reports no change (or does not print the tree when it reports one)")
	}
	// ContextRefRename
	if len(ren.AnonFuncs) == 1 && len(ren.AnonFuncs[0].AnonFuncs) == 1 {
		cb := ren.AnonFuncs[0].AnonFuncs[0]
		monotone := true
		nStores := 0
		renameGuarded := false
		core.EachInstr(cb, false, func(_ *ssa.Function, in ssa.Instruction) {
			st, ok := in.(*ssa.Store)
			if !ok {
				return
			}
			if fv, ok := st.Addr.(*ssa.FreeVar); ok && fv.Name() == "changed" {
				nStores++
				c, isC := st.Val.(*ssa.Const)
				isTrue := isC && c.Value != nil && c.Value.String() == "true"
				isOr := false
				if bo, ok := st.Val.(*ssa.BinOp); ok && (bo.Op == token.OR || bo.Op == token.LOR) {
					isOr = true
				}
				if phi, ok := st.Val.(*ssa.Phi); ok {
					// a || b lowers to a phi with a true edge; accept when one edge is the constant true and the other loads changed
					for _, e := range phi.Edges {
						if cc, ok := e.(*ssa.Const); ok && cc.Value != nil && cc.Value.String() == "true" {
							isOr = true
						}
					}
				}
				if !isTrue && !isOr {
					monotone = false
				}
			}
			if fa, ok := st.Addr.(*ssa.FieldAddr); ok && core.FieldAddrVar(fa).Name() == "Name" {
				// rename: stored value is `to`, guarded by EqualFold(ref.Name, from)
				isTo := false
				if ld, ok := st.Val.(*ssa.UnOp); ok {
					if fv, ok := ld.X.(*ssa.FreeVar); ok && fv.Name() == "to" {
						isTo = true
					}
				}
				if fv, ok := st.Val.(*ssa.FreeVar); ok && fv.Name() == "to" {
					isTo = true
				}
				fold := false
				for _, ce := range core.ControllingConds(st.Block()) {
					if c, ok := ce.Cond.(*ssa.Call); ok && ce.Taken {
						if o := core.CalleeObj(&c.Call); o != nil && core.ObjName(o) == "strings.EqualFold" {
							fold = true
						}
					}
				}
				if isTo && fold {
					renameGuarded = true
				}
			}
		})
		r.Check(monotone && nStores > 0, "R4", "refactor.ContextRefRename/changed-flag-monotone", p.Pos(cb.Pos()), "changed is only ever set to true", "the transformer's changed flag is overwritten per reference (a later non-matching reference resets it): a rename followed by another reference is reported as 'no change' and the original text is kept")
		r.Check(renameGuarded, "R4", "refactor.ContextRefRename/rename-guarded", p.Pos(cb.Pos()), "ref.Name = to under EqualFold(ref.Name, from)", "the rename is not guarded by a case-insensitive name comparison or does not store the new name")
	} else {
		r.Unknown("R4", "refactor.ContextRefRename/shape", p.Pos(ren.Pos()), "expected a closure containing one visitor callback")
	}
}

// concatParts flattens a string concatenation a + b + c into its operands.
func concatParts(v ssa.Value) []ssa.Value {
	if bo, ok := v.(*ssa.BinOp); ok && bo.Op == token.ADD {
		return append(concatParts(bo.X), concatParts(bo.Y)...)
	}
	return []ssa.Value{v}
}

type c11Printed struct {
	format string   // literal text with %s where a field is printed
	fields []string // the fields printed, in order ("" for anything else)
}

// c11PrintedTemplates evaluates a String() method symbolically: each alternative is literal text interleaved with the
// String() of the receiver's fields (or the fields themselves).
func c11PrintedTemplates(p *core.Program, strFn *ssa.Function) []c11Printed {
	ev := &tEval{p: p, pkgPath: core.FuncPkgPath(strFn), parenthesizers: map[*ssa.Function]bool{}}
	fieldOf := func(v ssa.Value) string {
		if ld, ok := v.(*ssa.UnOp); ok {
			if fv := core.FieldAddrVar(ld.X); fv != nil {
				return fv.Name()
			}
		}
		return ""
	}
	ev.hook = func(ev *tEval, fr *tFrame, c *ssa.Call) (aval, bool) {
		if c.Call.IsInvoke() && c.Call.Method.Name() == "String" {
			// the receiver is a field of the node, possibly handed to a helper as an argument
			rv := c.Call.Value
			if a, ok := ev.val(fr, rv).(*aUnknown); ok && a.v != nil {
				rv = a.v
			}
			if fld := fieldOf(rv); fld != "" {
				return holeStr(ev.namedHole("field", fld, -1, false, c)), true
			}
		}
		return nil, false
	}
	res := ev.evalFunc(strFn, []aval{&aUnknown{}}, nil)
	s, ok := res[0].(*aStr)
	if !ok {
		return nil
	}
	var out []c11Printed
	for _, a := range s.alts {
		pr := c11Printed{}
		for _, pc := range a.pieces {
			if pc.hole == nil {
				pr.format += strings.ReplaceAll(pc.lit, "%", "%%")
				continue
			}
			pr.format += "%s"
			name := ""
			if pc.hole.kind == "field" {
				name = pc.hole.name
			} else if pc.hole.src != nil {
				for v := range core.BackSlice(pc.hole.src, nil) {
					if fld := fieldOf(v); fld != "" && name == "" {
						name = fld
					}
				}
			}
			pr.fields = append(pr.fields, name)
		}
		out = append(out, pr)
	}
	return out
}

// c11NormalisedFields: text fields a printer may pass through a normalising call, with the reason it is harmless.
var c11NormalisedFields = map[string]string{
	"ContextReference.Name/strings.ToLower": "a context reference is resolved through Scope.get, which R6 shows to be case-insensitive (XObject.Get falls back to a lower-cased comparison; functions.Lookup lower-cases)",
}

// formatting calls that carry their string arguments into the result unchanged
var c11Formatting = map[string]bool{"fmt.Sprintf": true, "strings.Join": true, "fmt.Sprint": true}

func c11Identifiers(p *core.Program, r *core.Report, nodes []*types.Named) {
	nText := 0
	for _, n := range nodes {
		name := n.Obj().Name()
		st := n.Underlying().(*types.Struct)
		strFn := p.Method("excellent", name, "String")
		if strFn == nil {
			continue
		}
		for i := 0; i < st.NumFields(); i++ {
			f := st.Field(i)
			isText := false
			switch t := f.Type().Underlying().(type) {
			case *types.Basic:
				isText = t.Kind() == types.String
			case *types.Slice:
				if b, ok := t.Elem().Underlying().(*types.Basic); ok {
					isText = b.Kind() == types.String
				}
			}
			if !isText {
				continue
			}
			nText++
			// forward flow of every load of the field inside String()
			var altering []string
			var pos ssa.Instruction
			seen := map[ssa.Value]bool{}
			var flow func(v ssa.Value)
			flow = func(v ssa.Value) {
				if seen[v] || v.Referrers() == nil {
					return
				}
				seen[v] = true
				for _, u := range *v.Referrers() {
					switch x := u.(type) {
					case *ssa.Call:
						if _, isB := x.Call.Value.(*ssa.Builtin); isB {
							continue // len, append: the text itself is not altered
						}
						o := core.CalleeObj(&x.Call)
						if o != nil && c11Formatting[core.ObjName(o)] {
							continue
						}
						nm := "a dynamic call"
						if o != nil {
							nm = core.ObjName(o)
						}
						altering = append(altering, nm)
						if pos == nil {
							pos = x
						}
					case *ssa.Store:
						if x.Val == v {
							// stored into a local (vararg array element, variable): follow the loads of that location
							if root := storeRoot(x.Addr); root != nil {
								flow(root)
							}
						}
					case ssa.Value:
						flow(x)
					}
				}
			}
			core.EachInstr(strFn, true, func(_ *ssa.Function, in ssa.Instruction) {
				if fa, ok := in.(*ssa.FieldAddr); ok && core.FieldAddrVar(fa) == f {
					flow(fa)
				}
			})
			key := name + "." + f.Name() + "/printed-verbatim"
			var unlisted []string
			for _, a := range uniq(altering) {
				if reason, ok := c11NormalisedFields[name+"."+f.Name()+"/"+a]; ok {
					r.OK("R5", name+"."+f.Name()+"/"+a, p.Pos(strFn.Pos()), "listed: "+reason)
				} else {
					unlisted = append(unlisted, a)
				}
			}
			at := strFn.Pos()
			if pos != nil && len(unlisted) > 0 {
				at = pos.Pos()
			}
			r.Check(len(unlisted) == 0, "R5", key, p.Pos(at), "reaches the result only through formatting",
				fmt.Sprintf("%s.String passes %s through %s before printing it: the printed expression names something else than the parsed one (lookups prefer an exact-case match; anonymous function arguments are bound by their declared names)", name, f.Name(), strings.Join(unlisted, ", ")))
		}
	}
	r.Require("node_text_fields", nText, 3)

	// R6: who can resolve a context reference
	getField := p.FieldOf("excellent", "Scope", "get")
	if getField == nil {
		r.Errorf("excellent.Scope.get not found")
		return
	}
	nw := 0
	for _, w := range p.FieldWrites(getField) {
		if p.IsTestFile(w.Instr.Pos()) {
			continue
		}
		nw++
		what, ok := "", false
		switch v := w.Val.(type) {
		case *ssa.MakeClosure:
			fn := v.Fn.(*ssa.Function)
			if fn.Synthetic != "" && strings.Contains(fn.Name(), "Get$bound") {
				what, ok = "bound method "+fn.Name(), strings.HasPrefix(core.FuncName(fn), "(*excellent/types.XObject).Get")
			} else {
				// a function literal: every result it returns comes from functions.Lookup
				what = "function literal " + core.FuncName(fn)
				ok = (len(fn.FreeVars) == 0 && len(callsNamed(fn, "excellent/functions.Lookup")) > 0) || c11LowerCompare(fn)
			}
		case *ssa.Function:
			what = "function literal " + core.FuncName(v)
			ok = len(callsNamed(v, "excellent/functions.Lookup")) > 0 || c11LowerCompare(v)
		default:
			if w.Val != nil {
				what = w.Val.String()
			}
		}
		r.Check(ok, "R6", core.FuncName(w.Fn)+"->Scope.get", p.Pos(w.Instr.Pos()), what,
			"Scope.get is set to "+what+", which is not known to resolve names case-insensitively: the printer lower-cases context references, so a printed expression would no longer find what the parsed one found")
	}
	r.Require("scope_get_writers", nw, 2)
	if g := p.Method("excellent/types", "XObject", "Get"); g != nil {
		r.Check(c11LowerCompare(g), "R6", "XObject.Get/case-insensitive", p.Pos(g.Pos()), "compares lower-cased names", "XObject.Get no longer falls back to a case-insensitive match: a lower-cased printed reference does not resolve")
	} else {
		r.Errorf("XObject.Get not found")
	}
	if g := p.Func("excellent/functions", "Lookup"); g != nil {
		r.Check(c11LowerCompare(g), "R6", "functions.Lookup/case-insensitive", p.Pos(g.Pos()), "indexes the table with the lower-cased name", "functions.Lookup no longer lower-cases the name: a lower-cased printed function reference may not resolve")
	} else {
		r.Errorf("functions.Lookup not found")
	}
}

// storeRoot: the local allocation an address lies in (directly or as an element of a local array).
func storeRoot(addr ssa.Value) ssa.Value {
	for {
		switch x := addr.(type) {
		case *ssa.Alloc:
			return x
		case *ssa.IndexAddr:
			addr = x.X
		case *ssa.FieldAddr:
			addr = x.X
		default:
			return nil
		}
	}
}

// c11LowerCompare: fn resolves a name case-insensitively — it compares two lower-cased values, indexes a table with a
// lower-cased key, or uses strings.EqualFold.
func c11LowerCompare(fn *ssa.Function) bool {
	ok := false
	core.EachInstr(fn, false, func(_ *ssa.Function, in ssa.Instruction) {
		switch x := in.(type) {
		case *ssa.BinOp:
			if x.Op == token.EQL && core.DerivesFromCallDeep(x.X, 2, "strings.ToLower") && core.DerivesFromCallDeep(x.Y, 2, "strings.ToLower") {
				ok = true
			}
		case *ssa.Lookup:
			if core.DerivesFromCallDeep(x.Index, 2, "strings.ToLower") {
				ok = true
			}
		case *ssa.Call:
			if o := core.CalleeObj(&x.Call); o != nil && core.ObjName(o) == "strings.EqualFold" {
				ok = true
			}
		}
	})
	return ok
}

// ---------------------------------------------------------------------------------------------- R7

func c11R7(p *core.Program, r *core.Report) {
	n := 0
	ord := map[string]int{}
	for _, fn := range p.ModuleFunctions() {
		rel := core.RelPkg(core.FuncPkgPath(fn))
		if rel != "flows/definition/migrations" && rel != "excellent/refactor" && rel != "excellent" {
			continue
		}
		for _, cs := range core.Calls(fn, false) {
			o := core.CalleeObj(cs.Common())
			if o == nil {
				continue
			}
			switch core.ObjName(o) {
			case "strings.Trim", "strings.TrimLeft", "strings.TrimRight":
			default:
				continue
			}
			n++
			cut, ok := core.ConstString(cs.Common().Args[1])
			if !ok {
				continue
			}
			distinct := map[rune]bool{}
			for _, c := range cut {
				if c != ' ' && c != '\t' && c != '\n' && c != '\r' {
					distinct[c] = true
				}
			}
			ord[core.FuncName(fn)]++
			r.Check(len(distinct) < 2, "R7", fmt.Sprintf("%s/%s#%d", core.FuncName(fn), o.Name(), ord[core.FuncName(fn)]), p.Pos(cs.Pos()), "cutset "+strconv.Quote(cut), "strings."+o.Name()+" with the cutset "+strconv.Quote(cut)+" removes any run of those characters, not that text: a path ending in another `]` or `*` loses it too and no longer addresses the template")
		}
	}
	r.Count("trim_cutset_calls", n)
}
