package rules

import (
	"fmt"
	"go/token"
	"go/types"
	"strings"

	"golang.org/x/tools/go/ssa"

	"verif/checker/core"
)

func init() { register("C05", checkC05) }

// derivesFromOptionsField: v's provenance includes a load of EngineOptions.<field>.
func derivesFromOptionsField(v ssa.Value, field string) bool {
	for x := range core.BackSlice(v, func(*ssa.Call) bool { return false }) {
		switch y := x.(type) {
		case *ssa.FieldAddr:
			if fv := core.FieldAddrVar(y); fv != nil && fv.Name() == field {
				return true
			}
		case *ssa.Field:
			if fv := core.FieldAddrVar(y); fv != nil && fv.Name() == field {
				return true
			}
		}
	}
	return false
}

// truncCallWithLimit: v derives from stringsx.Truncate / TruncateEllipsis whose limit argument is EngineOptions.<field>
// (or the package constant named constName when field == "").
func truncCallWithLimit(v ssa.Value, fn string, field string, constVal int64) *ssa.Call {
	return truncCallWith(v, fn, func(lim ssa.Value) bool {
		if field != "" {
			return derivesFromOptionsField(lim, field)
		}
		k, isC := core.ConstInt(lim)
		return isC && k == constVal
	}, 0)
}

// truncCallWith: v derives from stringsx.<fn>(_, lim) with limOK(lim); the call is also found inside a helper of the
// same package whose result flows into v (a truncation a refactoring moved into a function of its own).
func truncCallWith(v ssa.Value, fn string, limOK func(lim ssa.Value) bool, depth int) *ssa.Call {
	for x := range core.BackSlice(v, func(c *ssa.Call) bool {
		o := core.CalleeObj(&c.Call)
		return o != nil && (strings.HasPrefix(core.ObjName(o), "strings.") || strings.HasPrefix(core.ObjName(o), "github.com/nyaruka/gocommon/stringsx.") || core.ObjName(o) == "excellent/types.NewXText")
	}) {
		c, ok := x.(*ssa.Call)
		if !ok {
			continue
		}
		if g := c.Call.StaticCallee(); g != nil && len(g.Blocks) > 0 && depth < 2 && c.Parent() != nil && g != c.Parent() && core.FuncPkgPath(g) == core.FuncPkgPath(c.Parent()) && len(g.Params) == len(c.Call.Args) {
			// every value the helper returns must be truncated; a limit it receives as a parameter is judged at the call
			inner := func(lim ssa.Value) bool {
				if limOK(lim) {
					return true
				}
				if i := paramPos(g, lim); i >= 0 {
					return limOK(c.Call.Args[i])
				}
				return false
			}
			rets := core.Returns(g)
			all := len(rets) > 0 && g.Signature.Results().Len() == 1
			var found *ssa.Call
			for _, ret := range rets {
				if !all {
					break
				}
				if found = truncCallWith(ret.Results[0], fn, inner, depth+1); found == nil {
					all = false
				}
			}
			if all {
				return found
			}
			continue
		}
		o := core.CalleeObj(&c.Call)
		if o == nil || core.ObjName(o) != "github.com/nyaruka/gocommon/stringsx."+fn {
			continue
		}
		if limOK(c.Call.Args[1]) {
			return c
		}
	}
	return nil
}

// paramPos: the position of v among fn's parameters (-1 if it is not one).
func paramPos(fn *ssa.Function, v ssa.Value) int {
	for i, q := range fn.Params {
		if ssa.Value(q) == core.StripConv(v) {
			return i
		}
	}
	return -1
}

// truncStore is an assignment `base.<field> = Truncate(_, Options().<limit>)` made by a function or, on its behalf, by
// a helper of the same package that it hands base to.
type truncStore struct {
	Outer ssa.Instruction // the store, or the call (in the function asked about) of the helper that performs it
	Base  ssa.Value       // the struct stored into, as a value of the function asked about
	// Inner: what decides inside the helpers whether the store runs, other than base being there (nil tests of base)
	Inner []core.CondEdge
}

func truncStores(fn *ssa.Function, field string, limOK func(lim ssa.Value) bool, depth int) []truncStore {
	var out []truncStore
	core.EachInstr(fn, false, func(_ *ssa.Function, in ssa.Instruction) {
		switch x := in.(type) {
		case *ssa.Store:
			fa, ok := x.Addr.(*ssa.FieldAddr)
			if ok && core.FieldAddrVar(fa).Name() == field && truncCallWith(x.Val, "Truncate", limOK, 0) != nil {
				out = append(out, truncStore{Outer: x, Base: fa.X})
			}
		case *ssa.Call:
			g := x.Call.StaticCallee()
			if depth <= 0 || g == nil || g == fn || len(g.Blocks) == 0 || core.FuncPkgPath(g) != core.FuncPkgPath(fn) || len(g.Params) != len(x.Call.Args) {
				return
			}
			inner := func(lim ssa.Value) bool {
				if limOK(lim) {
					return true
				}
				if i := paramPos(g, lim); i >= 0 {
					return limOK(x.Call.Args[i])
				}
				return false
			}
			for _, ts := range truncStores(g, field, inner, depth-1) {
				// the helper stores into what it was handed
				i := paramPos(g, ts.Base)
				if i < 0 {
					continue
				}
				conds := append([]core.CondEdge{}, ts.Inner...)
				for _, ce := range core.MayConds(ts.Outer.Block()) {
					if !isNilTestOf(ce.Cond, ts.Base) {
						conds = append(conds, ce)
					}
				}
				out = append(out, truncStore{Outer: x, Base: x.Call.Args[i], Inner: conds})
			}
		}
	})
	return out
}

// isNilTestOf: cond is `v == nil` / `v != nil`.
func isNilTestOf(cond ssa.Value, v ssa.Value) bool {
	bo, ok := cond.(*ssa.BinOp)
	if !ok || (bo.Op != token.NEQ && bo.Op != token.EQL) || !(core.IsNilConst(bo.X) || core.IsNilConst(bo.Y)) {
		return false
	}
	other := bo.X
	if core.IsNilConst(bo.X) {
		other = bo.Y
	}
	return canon(other) == canon(v)
}

// packageIntConst reads an untyped/typed integer constant of a module package.
func packageIntConst(p *core.Program, rel, name string) (int64, bool) {
	pk := p.Pkg(rel)
	if pk == nil {
		return 0, false
	}
	c, ok := pk.Types.Scope().Lookup(name).(*types.Const)
	if !ok {
		return 0, false
	}
	if v, ok := constantInt(c); ok {
		return v, true
	}
	return 0, false
}

func checkC05(p *core.Program, r *core.Report) {
	r.Rule("R1", "step budget: Run.CreateStep is called only by the node-visit function, which is called only by the engine loop; that call is dominated by the counter increment and by the false edge of counter > Options().MaxStepsPerSprint; the counter starts at 0, is function-local and only ever incremented; the true edge fails the run (no Go error)")
	r.Rule("R2", "every cycle of the engine loop spends a step or pops a run: removing the increment block and the switch-to-parent blocks leaves no cycle through the loop header")
	r.Rule("R3", "resume budget: countWaits() >= Options().MaxResumesPerSession dominates (false edge) resume.Apply and the loop call, its true edge fails the session; countWaits' predicate accepts the event type of every Wait.Begin implementation")
	r.Rule("R4", "size choke points: Results.Save only via run.SaveResult after Truncate(MaxResultChars); Contact.SetName / FieldValues.Set in modifiers only with values truncated to MaxFieldChars; EvaluateTemplateText truncates to MaxTemplateChars on every returning path when asked to, and only listed callers pass truncate=false; quick replies pass TruncateEllipsis(MaxQuickReplyLength); attachments are appended only on the false edge of len > MaxAttachmentLength")
	r.Assumption("stringsx.Truncate/TruncateEllipsis cut correctly (library); actions' services return")

	e := resolveEngine(p, r)
	if e == nil {
		return
	}

	// ------------------------------------------------------------------ R1
	nCS := 0
	for _, cs := range p.CallsToName("flows.Run.CreateStep", "flows/runs.run.CreateStep") {
		if p.IsTestFile(cs.Pos()) {
			continue
		}
		nCS++
		r.Check(cs.Caller == e.visit, "R1", core.FuncName(cs.Caller)+"/CreateStep", p.Pos(cs.Pos()), "node-visit function", "a step is created outside the node-visit function: it is not counted against MaxStepsPerSprint")
	}
	r.Require("createstep_sites", nCS, 1)
	var visitCall ssa.Instruction
	nV := 0
	for _, cs := range p.CallsTo(e.visit) {
		if p.IsTestFile(cs.Pos()) {
			continue
		}
		nV++
		r.Check(cs.Caller == e.loop, "R1", core.FuncName(cs.Caller)+"/visitNode", p.Pos(cs.Pos()), "engine loop", "the node-visit function is called outside the engine loop: its steps are not counted")
		if cs.Caller == e.loop {
			visitCall = cs.Instr
		}
	}
	r.Require("visitnode_sites", nV, 1)
	if visitCall == nil {
		return
	}
	// the limit test
	var limitCond *ssa.BinOp
	var counterInc *ssa.BinOp
	var limitTaken bool
	var limitOp token.Token
	for _, ce := range core.ControllingConds(visitCall.Block()) {
		bo, ok := ce.Cond.(*ssa.BinOp)
		if !ok {
			continue
		}
		// normalise to `counter OP limit`, whichever side the limit is written on
		var cnt ssa.Value
		op := bo.Op
		switch {
		case derivesFromOptionsField(bo.Y, "MaxStepsPerSprint"):
			cnt = bo.X
		case derivesFromOptionsField(bo.X, "MaxStepsPerSprint"):
			cnt = bo.Y
			switch op {
			case token.LSS:
				op = token.GTR
			case token.LEQ:
				op = token.GEQ
			case token.GTR:
				op = token.LSS
			case token.GEQ:
				op = token.LEQ
			}
		default:
			continue
		}
		switch op {
		case token.GTR, token.GEQ, token.LSS, token.LEQ:
		default:
			continue
		}
		if inc, ok := cnt.(*ssa.BinOp); ok && inc.Op == token.ADD {
			if k, isC := core.ConstInt(inc.Y); isC && k == 1 {
				counterInc = inc
			}
		}
		limitCond, limitTaken, limitOp = bo, ce.Taken, op
	}
	if !r.Check(limitCond != nil, "R1", "continueUntilWait/limit-test-dominates-visit", p.Pos(visitCall.Pos()), "visitNode is dominated by a comparison of the step counter with Options().MaxStepsPerSprint",
		"no comparison with MaxStepsPerSprint dominates the node visit: a flow loop never ends the sprint") {
		return
	}
	// polarity: visit on the edge where counter <= limit (exceeds := counter > / >= limit)
	exceedsForm := limitOp == token.GTR || limitOp == token.GEQ
	okPol := (exceedsForm && !limitTaken) || (!exceedsForm && limitTaken)
	r.Check(okPol, "R1", "continueUntilWait/visit-on-within-limit-edge", p.Pos(limitCond.Pos()), "the node is visited on the edge where the counter does not exceed the limit", "the node is visited on the edge where the limit is exceeded")
	// normal forms: post-increment counter > L (at most L steps), pre... the compared value must be the incremented counter
	if r.Check(counterInc != nil, "R1", "continueUntilWait/compares-incremented-counter", p.Pos(limitCond.Pos()), "the compared value is counter+1 computed in this iteration",
		"the value compared with the limit is not the counter incremented in this iteration (increment moved after the visit, or a different variable)") {
		r.Check(limitOp == token.GTR || limitOp == token.LEQ, "R1", "continueUntilWait/limit-form", p.Pos(limitCond.Pos()), "counter+1 > limit: at most `limit` steps",
			"with counter+1 >= limit the sprint stops one step early; accepted forms are (counter+1) > limit")
		// counter phi: starts at 0, other edges are itself or the increment
		phi, ok := counterInc.X.(*ssa.Phi)
		okPhi := ok
		if ok {
			for i, ev := range phi.Edges {
				pred := phi.Block().Preds[i]
				if k, isC := core.ConstInt(ev); isC {
					// constant only from outside the loop (entry)
					if k != 0 || phi.Block().Dominates(pred) {
						okPhi = false
					}
					continue
				}
				if !counterFlowsOnly(ev, phi, counterInc, map[ssa.Value]bool{}) {
					okPhi = false
				}
			}
		}
		r.Check(okPhi, "R1", "continueUntilWait/counter-monotone", p.Pos(counterInc.Pos()), "counter is 0 on entry and every loop edge carries the counter itself or counter+1",
			"the step counter is reset or overwritten inside the loop (e.g. on a sub-flow push): the budget no longer bounds the sprint")
		r.Check(core.InstrDominates(counterInc, visitCall), "R1", "continueUntilWait/increment-before-visit", p.Pos(counterInc.Pos()), "increment dominates the visit", "the increment does not dominate the node visit")
	}
	// true edge -> failRun, and no Go-error return controlled by the limit-exceeded edge
	failOK := false
	for _, cs := range core.Calls(e.loop, false) {
		if cs.Common().StaticCallee() != e.failRun {
			continue
		}
		for _, ce := range core.ControllingConds(cs.Instr.Block()) {
			if ce.Cond == ssa.Value(limitCond) && ce.Taken != limitTaken {
				failOK = true
			}
		}
	}
	r.Check(failOK, "R1", "continueUntilWait/limit-exceeded-fails-run", p.Pos(limitCond.Pos()), "failRun on the limit-exceeded edge", "exceeding the step limit does not fail the run")
	for _, ret := range core.Returns(e.loop) {
		ev := errResult(ret)
		if ev == nil || core.IsNilConst(ev) {
			continue
		}
		for _, ce := range core.ControllingConds(ret.Block()) {
			if ce.Cond == ssa.Value(limitCond) && ce.Taken != limitTaken {
				r.Bad("R1", "continueUntilWait/limit-exceeded-returns-go-error", p.Pos(ret.Pos()), "hitting the step limit returns a Go error instead of ending the session as failed")
			}
		}
	}

	// ------------------------------------------------------------------ R2
	if counterInc != nil {
		removed := map[*ssa.BasicBlock]bool{counterInc.Block(): true}
		// pop blocks: predecessors through which a ParentInSession value enters a phi of the loop
		nPop := 0
		core.EachInstr(e.loop, false, func(_ *ssa.Function, in ssa.Instruction) {
			phi, ok := in.(*ssa.Phi)
			if !ok {
				return
			}
			for i, ev := range phi.Edges {
				if c, ok := ev.(*ssa.Call); ok && c.Call.IsInvoke() && c.Call.Method.Name() == "ParentInSession" {
					removed[phi.Block().Preds[i]] = true
					nPop++
				}
			}
		})
		header := e.loop.Blocks[0]
		if len(e.loop.Blocks) > 1 {
			header = e.loop.Blocks[1]
		}
		// find the loop header: the block that dominates the increment block and has a back edge
		for _, b := range e.loop.Blocks {
			for _, pr := range b.Preds {
				if b.Dominates(pr) && b.Dominates(counterInc.Block()) {
					header = b
				}
			}
		}
		// enumerate every path of one iteration (equality facts on the destination variable are tracked, so the
		// "destination == \"\"" / "destination != \"\"" pair is correlated); at the back edge to the header the path
		// must have executed the increment or entered the join through a switch-to-parent edge
		bad := ""
		nBack := 0
		popPreds := removed
		res := core.ExplorePaths(e.loop, core.PathRules{
			LoopBound: 1,
			MaxPaths:  200000,
			OnInstr: func(s *core.PathState, in ssa.Instruction) {
				if in == ssa.Instruction(counterInc) {
					s.Effects = append(s.Effects, core.Effect{Kind: "INC"})
				}
			},
			OnBackEdge: func(s *core.PathState, from, to *ssa.BasicBlock) bool {
				if to != header {
					return true // inner loop
				}
				nBack++
				spent := s.Has("INC")
				for i := 1; i < len(s.Blocks); i++ {
					if popPreds[e.loop.Blocks[s.Blocks[i]]] && e.loop.Blocks[s.Blocks[i]] != counterInc.Block() {
						spent = true
					}
				}
				if !spent && bad == "" {
					bad = fmt.Sprintf("blocks %v", s.Blocks)
				}
				return false
			},
		})
		_ = header
		r.Count("loop_iteration_paths", nBack)
		r.Check(bad == "" && nPop > 0 && nBack > 0 && !res.Truncated, "R2", "continueUntilWait/every-cycle-spends-or-pops", p.Pos(e.loop.Pos()),
			fmt.Sprintf("%d paths reach the back edge; each executed the increment or switched to the parent run (%d switch edges)", nBack, nPop),
			"a path around the engine loop neither increments the step counter nor switches to the parent run ("+bad+"): such a cycle can spin forever")
	}

	// ------------------------------------------------------------------ R3
	c05R3(p, r, e)

	// ------------------------------------------------------------------ R4
	c05R4(p, r)
	c05R7(p, r)
}

// counterFlowsOnly: v is the counter phi itself, the increment, or a phi of those.
func counterFlowsOnly(v ssa.Value, phi *ssa.Phi, inc *ssa.BinOp, seen map[ssa.Value]bool) bool {
	if seen[v] {
		return true
	}
	seen[v] = true
	if v == ssa.Value(phi) || v == ssa.Value(inc) {
		return true
	}
	if p2, ok := v.(*ssa.Phi); ok {
		for _, ev := range p2.Edges {
			if !counterFlowsOnly(ev, phi, inc, seen) {
				return false
			}
		}
		return true
	}
	return false
}

func c05R3(p *core.Program, r *core.Report, e *engineFns) {
	// the wait counter is found by role: the function of the engine package whose result the resume entry compares with
	// Options().MaxResumesPerSession
	var countWaits *ssa.Function
	core.EachInstr(e.tryResume, false, func(_ *ssa.Function, in ssa.Instruction) {
		iff, ok := in.(*ssa.If)
		if !ok {
			return
		}
		bo, ok := iff.Cond.(*ssa.BinOp)
		if !ok || !derivesFromOptionsField(bo.Y, "MaxResumesPerSession") {
			return
		}
		for v := range core.BackSlice(bo.X, nil) {
			if c, ok := v.(*ssa.Call); ok {
				if f := c.Call.StaticCallee(); f != nil && core.FuncPkgPath(f) == core.FuncPkgPath(e.tryResume) && len(f.Blocks) > 0 {
					countWaits = f
				}
			}
		}
	})
	if countWaits == nil {
		r.Bad("R3", "tryToResume/resume-limit-test", p.Pos(e.tryResume.Pos()), "the resume entry does not compare a count of the session's waits with Options().MaxResumesPerSession")
		return
	}
	var limCond *ssa.BinOp
	var limIf *ssa.If
	core.EachInstr(e.tryResume, false, func(_ *ssa.Function, in ssa.Instruction) {
		iff, ok := in.(*ssa.If)
		if !ok {
			return
		}
		bo, ok := iff.Cond.(*ssa.BinOp)
		if !ok || (bo.Op != token.GEQ && bo.Op != token.GTR) {
			return
		}
		fromCount := false
		for v := range core.BackSlice(bo.X, nil) {
			if c, ok := v.(*ssa.Call); ok && c.Call.StaticCallee() == countWaits {
				fromCount = true
			}
		}
		if fromCount && derivesFromOptionsField(bo.Y, "MaxResumesPerSession") {
			limCond, limIf = bo, iff
		}
	})
	if !r.Check(limCond != nil, "R3", "tryToResume/resume-limit-test", p.Pos(e.tryResume.Pos()), "countWaits() compared with Options().MaxResumesPerSession", "the resume entry does not compare the number of waits with MaxResumesPerSession") {
		return
	}
	r.Check(limCond.Op == token.GEQ, "R3", "tryToResume/resume-limit-form", p.Pos(limCond.Pos()), "countWaits() >= limit", "with > the session can be resumed limit+1 times")
	domFalse := func(in ssa.Instruction) bool {
		for _, ce := range core.ControllingConds(in.Block()) {
			if ce.If == limIf && !ce.Taken {
				return true
			}
		}
		return false
	}
	nApply := 0
	for _, cs := range core.Calls(e.tryResume, false) {
		cc := cs.Common()
		isApply := cc.IsInvoke() && cc.Method.Name() == "Apply"
		isLoop := cc.StaticCallee() == e.loop
		if !isApply && !isLoop {
			continue
		}
		nApply++
		what := "resume.Apply"
		if isLoop {
			what = "continueUntilWait"
		}
		r.Check(domFalse(cs.Instr), "R3", "tryToResume/"+what+"-after-limit-test", p.Pos(cs.Pos()), "dominated by the within-limit edge", what+" runs without having passed the resume-limit test")
	}
	r.Require("resume_apply_and_loop_calls", nApply, 2)
	// true edge: failSession closure then return nil
	tb := limIf.Block().Succs[0]
	failed, retNil := false, false
	for _, in := range tb.Instrs {
		if ci, ok := in.(ssa.CallInstruction); ok {
			// the fail-session closure (or a method it was turned into), which leaves the status failed on every path
			var callee *ssa.Function
			if mc, ok := ci.Common().Value.(*ssa.MakeClosure); ok {
				callee, _ = mc.Fn.(*ssa.Function)
			} else if f := ci.Common().StaticCallee(); f != nil && core.FuncPkgPath(f) == core.FuncPkgPath(e.tryResume) {
				callee = f
			}
			if callee != nil && (writesField(callee, e.statusField) || settlesAlways(callee, e.statusField, nil, nil)) {
				failed = true
			}
		}
		if ret, ok := in.(*ssa.Return); ok && core.IsNilConst(errResult(ret)) {
			retNil = true
		}
	}
	r.Check(failed && retNil, "R3", "tryToResume/limit-reached-fails-session", p.Pos(tb.Instrs[0].Pos()), "failSession(..) then return nil", "reaching the resume limit does not end the session as failed with a nil Go error")

	// countWaits predicate vs wait event types
	var types_ []string
	waitIface := p.Interface("flows", "Wait")
	if waitIface == nil {
		r.Errorf("flows.Wait not found")
		return
	}
	for _, n := range p.Implementers(waitIface) {
		begin := p.Method(core.RelPkg(n.Obj().Pkg().Path()), n.Obj().Name(), "Begin")
		if begin == nil || begin.Blocks == nil {
			continue
		}
		for _, cs := range core.Calls(begin, false) {
			f := cs.Common().StaticCallee()
			if f == nil || core.RelPkg(core.FuncPkgPath(f)) != "flows/events" || !strings.HasPrefix(f.Name(), "New") {
				continue
			}
			// the constructor's base event type constant
			for _, c2 := range core.Calls(f, false) {
				if g := c2.Common().StaticCallee(); g != nil && g.Name() == "NewBaseEvent" {
					if s, ok := core.ConstString(c2.Common().Args[0]); ok {
						types_ = append(types_, s)
					}
				}
			}
		}
	}
	r.Require("wait_event_types", len(types_), 2)
	// predicate in countWaits: the condition controlling the counter increment
	var pred func(string) (bool, bool)
	desc := ""
	// the counting may be split over helpers of the same package whose result flows into the count (a per-run counter
	// summed by countWaits): the predicate is looked for in all of them
	counters := []*ssa.Function{countWaits}
	for i := 0; i < len(counters) && i < 8; i++ {
		for _, ret := range core.Returns(counters[i]) {
			for _, rv := range ret.Results {
				for v := range core.BackSlice(rv, nil) {
					c, ok := v.(*ssa.Call)
					if !ok {
						continue
					}
					f := c.Call.StaticCallee()
					if f == nil || len(f.Blocks) == 0 || core.FuncPkgPath(f) != core.FuncPkgPath(countWaits) {
						continue
					}
					known := false
					for _, g := range counters {
						known = known || g == f
					}
					if !known {
						counters = append(counters, f)
					}
				}
			}
		}
	}
	eachCounterInstr := func(visit func(in ssa.Instruction)) {
		for _, f := range counters {
			core.EachInstr(f, false, func(_ *ssa.Function, in ssa.Instruction) { visit(in) })
		}
	}
	eachCounterInstr(func(in ssa.Instruction) {
		iff, ok := in.(*ssa.If)
		if !ok {
			return
		}
		switch c := iff.Cond.(type) {
		case *ssa.Call:
			if o := core.CalleeObj(&c.Call); o != nil && core.ObjName(o) == "strings.HasSuffix" {
				if s, ok := core.ConstString(c.Call.Args[1]); ok {
					pred = func(t string) (bool, bool) { return strings.HasSuffix(t, s), true }
					desc = "HasSuffix(type, " + fmt.Sprintf("%q", s) + ")"
				}
			}
			if o := core.CalleeObj(&c.Call); o != nil && core.ObjName(o) == "strings.HasPrefix" {
				if s, ok := core.ConstString(c.Call.Args[1]); ok {
					pred = func(t string) (bool, bool) { return strings.HasPrefix(t, s), true }
					desc = "HasPrefix(type, " + fmt.Sprintf("%q", s) + ")"
				}
			}
		case *ssa.BinOp:
			if c.Op == token.EQL {
				if s, ok := core.ConstString(c.Y); ok {
					// a chain of == tests would need a disjunction; a single == is what we can decide
					prev := pred
					pred = func(t string) (bool, bool) {
						if t == s {
							return true, true
						}
						if prev != nil {
							return prev(t)
						}
						return false, true
					}
					desc += " type==" + fmt.Sprintf("%q", s)
				}
			}
		}
	})
	if pred == nil {
		r.Unknown("R3", "countWaits/predicate", p.Pos(countWaits.Pos()), "the counting predicate of countWaits has a shape the rule does not know")
		return
	}
	for _, t := range types_ {
		ok, _ := pred(t)
		r.Check(ok, "R3", "countWaits/counts "+t, p.Pos(countWaits.Pos()), desc+" accepts it",
			fmt.Sprintf("Wait.Begin emits %q but countWaits (%s) does not count it: sessions waiting that way can be resumed without bound", t, strings.TrimSpace(desc)))
	}
}

func c05R4(p *core.Program, r *core.Report) {
	// (a) Results.Save only from run.SaveResult, after the truncating store
	save := p.Method("flows/runs", "run", "SaveResult")
	if save == nil {
		r.Errorf("run.SaveResult not found")
		return
	}
	n := 0
	for _, cs := range p.CallsToName("flows.Results.Save") {
		if p.IsTestFile(cs.Pos()) {
			continue
		}
		n++
		r.Check(cs.Caller == save, "R4", core.FuncName(cs.Caller)+"/Results.Save", p.Pos(cs.Pos()), "via run.SaveResult", "a result is stored without passing run.SaveResult's truncation")
		if cs.Caller == save {
			okTr := false
			a := cs.Common().Args
			// the assignment may sit in a helper that SaveResult hands the result to; it must be unconditional there
			for _, ts := range truncStores(save, "Value", func(lim ssa.Value) bool { return derivesFromOptionsField(lim, "MaxResultChars") }, 2) {
				if len(ts.Inner) == 0 && canon(ts.Base) == canon(a[len(a)-1]) && core.InstrDominates(ts.Outer, cs.Instr) {
					okTr = true
				}
			}
			r.Check(okTr, "R4", "run.SaveResult/truncates-value", p.Pos(cs.Pos()), "result.Value = Truncate(_, Options().MaxResultChars) dominates Results.Save", "run results are saved without truncating their value to MaxResultChars")
		}
	}
	r.Require("results_save_sites", n, 1)
	// (b) Contact.SetName and FieldValues.Set in modifiers
	for _, cs := range p.CallsToName("flows.Contact.SetName") {
		if p.IsTestFile(cs.Pos()) || !strings.HasPrefix(core.RelPkg(core.FuncPkgPath(cs.Caller)), "flows/") {
			continue
		}
		a := cs.Common().Args
		// truncated here, or a parameter of an unexported helper that every caller hands a truncated value
		var truncated func(v ssa.Value, depth int) bool
		truncated = func(v ssa.Value, depth int) bool {
			if truncCallWithLimit(v, "Truncate", "MaxFieldChars", 0) != nil {
				return true
			}
			par, ok := core.StripConv(v).(*ssa.Parameter)
			if !ok || depth > 2 || par.Parent().Object() == nil || par.Parent().Object().Exported() {
				return false
			}
			idx := -1
			for i, q := range par.Parent().Params {
				if q == par {
					idx = i
				}
			}
			sites := p.CallsTo(par.Parent())
			if idx < 0 || len(sites) == 0 {
				return false
			}
			for _, s2 := range sites {
				if idx >= len(s2.Common().Args) || !truncated(s2.Common().Args[idx], depth+1) {
					return false
				}
			}
			return true
		}
		r.Check(truncated(a[len(a)-1], 0), "R4", core.FuncName(cs.Caller)+"/SetName-truncated", p.Pos(cs.Pos()),
			"name derives from Truncate(_, Options().MaxFieldChars)", "a contact name is set without truncation to MaxFieldChars")
	}
	for _, cs := range p.CallsToName("flows.FieldValues.Set") {
		if p.IsTestFile(cs.Pos()) || core.RelPkg(core.FuncPkgPath(cs.Caller)) != "flows/modifiers" {
			continue
		}
		a := cs.Common().Args
		val := a[len(a)-1]
		okTr, extraCond := fieldTextTruncated(p, val, cs.Instr, 2)
		r.Check(okTr, "R4", core.FuncName(cs.Caller)+"/FieldValues.Set-truncated", p.Pos(cs.Pos()), "value.Text = Truncate(_, Options().MaxFieldChars) before the store", "a field value is stored without truncating its text to MaxFieldChars")
		r.Check(extraCond == "", "R4", core.FuncName(cs.Caller)+"/FieldValues.Set-truncated-always", p.Pos(cs.Pos()), "the truncation depends only on the value being non-nil",
			"the truncation of the field value's text also depends on "+extraCond+": every field value carries its text whatever the field's type, so the other values are stored at full length")
	}
	// (c) EvaluateTemplateText truncates on every returning path when asked to
	ett := p.Method("flows/runs", "run", "EvaluateTemplateText")
	if ett == nil {
		r.Errorf("run.EvaluateTemplateText not found")
		return
	}
	var truncP *ssa.Parameter
	for _, prm := range ett.Params {
		if b, ok := prm.Type().Underlying().(*types.Basic); ok && b.Kind() == types.Bool {
			truncP = prm
		}
	}
	if truncP == nil {
		r.Errorf("EvaluateTemplateText has no bool parameter")
		return
	}
	bad := ""
	res := core.ExplorePaths(ett, core.PathRules{
		OnCall: func(s *core.PathState, c ssa.CallInstruction) []core.CallOutcome {
			if call, ok := c.(*ssa.Call); ok {
				if o := core.CalleeObj(&call.Call); o != nil && core.ObjName(o) == "github.com/nyaruka/gocommon/stringsx.TruncateEllipsis" {
					if derivesFromOptionsField(call.Call.Args[1], "MaxTemplateChars") {
						return []core.CallOutcome{{Effects: []core.Effect{{Kind: "TRUNC", Instr: c}}}}
					}
				}
			}
			return nil
		},
		OnExit: func(s *core.PathState, ret *ssa.Return, pan *ssa.Panic) {
			if ret == nil {
				return
			}
			if sv, ok := core.ConstString(ret.Results[0]); ok && sv == "" {
				return
			}
			switch s.Val(truncP) {
			case core.True:
				if !s.Has("TRUNC") {
					bad = fmt.Sprintf("returns untruncated text on a path where truncate is true (blocks %v)", s.Blocks)
				}
				// the returned value must be the truncated one
			case core.Unk:
				bad = fmt.Sprintf("returns evaluated text on a path that never consults the truncate flag (blocks %v)", s.Blocks)
			}
		},
	})
	r.Check(bad == "" && res.Paths > 0 && !res.Truncated, "R4", "run.EvaluateTemplateText/truncates-on-every-path", p.Pos(ett.Pos()),
		fmt.Sprintf("%d paths: truncate => TruncateEllipsis(_, Options().MaxTemplateChars) before returning", res.Paths), bad)
	// the returned value on the truncate edge is the truncated one
	retOK := true
	for _, ret := range core.Returns(ett) {
		if sv, ok := core.ConstString(ret.Results[0]); ok && sv == "" {
			continue
		}
		// a return on the edge where the truncate flag is known to be false owes no truncation (early-return form)
		askedNot := false
		for _, ce := range core.ControllingConds(ret.Block()) {
			cond, taken := ce.Cond, ce.Taken
			for {
				un, isNot := cond.(*ssa.UnOp)
				if !isNot || un.Op != token.NOT {
					break
				}
				cond, taken = un.X, !taken
			}
			if cond == ssa.Value(truncP) && !taken {
				askedNot = true
			}
		}
		if !askedNot && truncCallWithLimit(ret.Results[0], "TruncateEllipsis", "MaxTemplateChars", 0) == nil {
			retOK = false
		}
	}
	r.Check(retOK, "R4", "run.EvaluateTemplateText/returns-truncated-value", p.Pos(ett.Pos()), "the returned text derives from the TruncateEllipsis result", "the text returned is not the truncated value")
	// callers passing truncate=false
	allowedFalse := map[string]string{
		"(*flows/actions.CallWebhookAction).Execute":  "webhook bodies are deliberately not truncated (documented in the action); they are HTTP request bodies, not message text",
		"(*flows/actions.CallResthookAction).Execute": "the resthook payload is a constant JSON template (ResthookPayload) that must stay valid JSON; it is an HTTP request body, not message text",
	}
	nE := 0
	for _, cs := range p.CallsToName("flows.Run.EvaluateTemplateText", "flows/runs.run.EvaluateTemplateText") {
		if p.IsTestFile(cs.Pos()) {
			continue
		}
		nE++
		a := cs.Common().Args
		tv := a[len(a)-2]
		key := core.FuncName(cs.Caller) + "/EvaluateTemplateText-truncate"
		c, isC := tv.(*ssa.Const)
		if isC && c.Value != nil && c.Value.String() == "true" {
			r.OK("R4", key, p.Pos(cs.Pos()), "truncate=true")
			continue
		}
		if reason, ok := allowedFalse[core.FuncName(cs.Caller)]; ok {
			r.OK("R4", key, p.Pos(cs.Pos()), "listed: "+reason)
			continue
		}
		r.Bad("R4", key, p.Pos(cs.Pos()), "template evaluated without truncation (truncate is not the constant true) by a caller that is not listed")
	}
	r.Require("evaluatetemplatetext_sites", nE, 2)
	// (d) evaluateMessage: quick replies and attachments
	em := p.Method("flows/actions", "baseAction", "evaluateMessage")
	if em == nil {
		r.Errorf("baseAction.evaluateMessage not found")
		return
	}
	maxQR, ok1 := packageIntConst(p, "flows", "MaxQuickReplyLength")
	maxAtt, ok2 := packageIntConst(p, "flows", "MaxAttachmentLength")
	if !ok1 || !ok2 {
		r.Errorf("flows.MaxQuickReplyLength / MaxAttachmentLength not found")
		return
	}
	qrOK, attOK, txtOK := false, false, false
	for _, ec := range core.EffectiveCalls(em, 2) {
		cs := ec.Inner
		b, ok := cs.Common().Value.(*ssa.Builtin)
		if !ok || b.Name() != "append" {
			continue
		}
		args := cs.Common().Args
		elemT := args[0].Type().Underlying().(*types.Slice).Elem()
		if core.ShortType(elemT) == "string" {
			// quick replies
			qrOK = truncCallWithLimit(args[1], "TruncateEllipsis", "", maxQR) != nil
		} else if strings.HasSuffix(core.ShortType(elemT), "utils.Attachment") {
			for _, ce := range core.ControllingConds(cs.Instr.Block()) {
				bo, ok := ce.Cond.(*ssa.BinOp)
				if !ok || bo.Op != token.GTR || ce.Taken {
					continue
				}
				if k, isC := core.ConstInt(bo.Y); isC && k == maxAtt {
					if c, ok := bo.X.(*ssa.Call); ok {
						if bi, ok := c.Call.Value.(*ssa.Builtin); ok && bi.Name() == "len" {
							// len of the very string that is appended
							for v := range core.BackSlice(args[1], nil) {
								if v == c.Call.Args[0] {
									attOK = true
								}
							}
						}
					}
				}
			}
		}
	}
	// text comes from EvaluateTemplate (truncate=true wrapper)
	core.EachInstr(em, false, func(_ *ssa.Function, in ssa.Instruction) {
		st, ok := in.(*ssa.Store)
		if !ok {
			return
		}
		if fv := core.FieldAddrVar(st.Addr); fv != nil && fv.Name() == "Text" {
			for v := range core.BackSlice(st.Val, nil) {
				if c, ok := v.(*ssa.Call); ok {
					if o := core.CalleeObj(&c.Call); o != nil && core.ObjName(o) == "flows.Run.EvaluateTemplate" {
						txtOK = true
					}
				}
			}
		}
	})
	r.Check(qrOK, "R4", "evaluateMessage/quick-replies-truncated", p.Pos(em.Pos()), "appended quick reply derives from TruncateEllipsis(_, MaxQuickReplyLength)", "quick replies are appended without truncation to MaxQuickReplyLength")
	r.Check(attOK, "R4", "evaluateMessage/attachments-length-checked", p.Pos(em.Pos()), "attachment appended only on the false edge of len(att) > MaxAttachmentLength", "attachments are appended without the MaxAttachmentLength check on the appended value")
	r.Check(txtOK, "R4", "evaluateMessage/text-via-truncating-evaluate", p.Pos(em.Pos()), "MsgContent.Text derives from Run.EvaluateTemplate", "message text does not come from the truncating EvaluateTemplate")
	// wherever message content is put together: what is appended to the quick replies of a MsgContent is truncated to
	// the quick reply limit (not to another limit)
	qrField := p.FieldOf("flows", "MsgContent", "QuickReplies")
	if qrField == nil {
		r.Errorf("flows.MsgContent.QuickReplies not found")
		return
	}
	nQR := 0
	for _, fn := range p.ModuleFunctions() {
		core.EachInstr(fn, false, func(_ *ssa.Function, in ssa.Instruction) {
			st, ok := in.(*ssa.Store)
			if !ok || core.FieldAddrVar(st.Addr) != qrField {
				return
			}
			// the appends that build the stored slice itself (phis, earlier appends, reslices), not everything it depends on
			var appends []*ssa.Call
			seen := map[ssa.Value]bool{}
			var walk func(v ssa.Value)
			walk = func(v ssa.Value) {
				if seen[v] {
					return
				}
				seen[v] = true
				switch x := v.(type) {
				case *ssa.Phi:
					for _, e := range x.Edges {
						walk(e)
					}
				case *ssa.Slice:
					walk(x.X)
				case *ssa.ChangeType:
					walk(x.X)
				case *ssa.Call:
					if b, ok := x.Call.Value.(*ssa.Builtin); ok && b.Name() == "append" {
						appends = append(appends, x)
						walk(x.Call.Args[0])
					}
				}
			}
			walk(st.Val)
			for _, c := range appends {
				elems := core.VariadicArgs(c.Call.Args[1])
				for i, e := range elems {
					if e == nil {
						continue
					}
					nQR++
					key := fmt.Sprintf("%s/MsgContent.QuickReplies/append#%d", core.FuncName(fn), i)
					r.Check(truncCallWithLimit(e, "TruncateEllipsis", "", maxQR) != nil, "R4", key, p.Pos(c.Pos()), "the appended quick reply is TruncateEllipsis(_, MaxQuickReplyLength)", "a quick reply is added to message content without being cut to MaxQuickReplyLength (no truncation, or truncation to another limit)")
				}
			}
		})
	}
	r.Count("quick_reply_appends", nQR)
	r.Require("quick_reply_appends", nQR, 1)
	// EvaluateTemplate wrapper passes true
	if et := p.Method("flows/runs", "run", "EvaluateTemplate"); et != nil {
		okW := false
		for _, cs := range core.Calls(et, false) {
			if cs.Common().StaticCallee() == ett {
				a := cs.Common().Args
				if c, ok := a[len(a)-2].(*ssa.Const); ok && c.Value != nil && c.Value.String() == "true" {
					okW = true
				}
			}
		}
		r.Check(okW, "R4", "run.EvaluateTemplate/passes-truncate-true", p.Pos(et.Pos()), "EvaluateTemplateText(_, nil, true, _)", "the convenience evaluator does not ask for truncation")
	}
}

// fieldTextTruncated: the Text of field value val was re-assigned from Truncate(_, Options().MaxFieldChars) before
// use — in use's function, in a helper of the same package it hands val to, or (when val is what such a helper
// returns) in that helper for every value it returns. extra names a condition, other than val being non-nil, that the
// truncation depends on.
func fieldTextTruncated(p *core.Program, val ssa.Value, use ssa.Instruction, depth int) (ok bool, extra string) {
	limOK := func(lim ssa.Value) bool { return derivesFromOptionsField(lim, "MaxFieldChars") }
	for _, ts := range truncStores(use.Parent(), "Text", limOK, 2) {
		if canon(ts.Base) != canon(val) || instrReaches(use, ts.Outer) {
			continue
		}
		ok = true
		// the truncation may depend on nothing but the value being there
		conds := append([]core.CondEdge{}, ts.Inner...)
		for _, ce := range core.MayConds(ts.Outer.Block()) {
			if !isNilTestOf(ce.Cond, val) {
				conds = append(conds, ce)
			}
		}
		for _, ce := range conds {
			extra = canonShort(ce.Cond) + " at " + p.Pos(ce.If.Pos())
		}
	}
	if ok || depth <= 0 {
		return ok, extra
	}
	c, isCall := core.StripConv(val).(*ssa.Call)
	if !isCall {
		return false, ""
	}
	g := c.Call.StaticCallee()
	if g == nil || g == use.Parent() || len(g.Blocks) == 0 || core.FuncPkgPath(g) != core.FuncPkgPath(use.Parent()) || g.Signature.Results().Len() != 1 {
		return false, ""
	}
	n := 0
	for _, ret := range core.Returns(g) {
		if core.IsNilConst(ret.Results[0]) {
			continue // no value, no text
		}
		n++
		ok2, ex := fieldTextTruncated(p, ret.Results[0], ret, depth-1)
		if !ok2 {
			return false, ""
		}
		if ex != "" {
			extra = ex
		}
	}
	return n > 0, extra
}

func constantInt(c *types.Const) (int64, bool) {
	return constInt64(c.Val())
}

// ---------------------------------------------------------------------------------------------- R7

var c05VarIndexAllowed = map[string]string{
	"(*flows/routers.RandomRouter).Route/index#1":  "categories[floor(r*n)]: r is random.Decimal() in [0,1) so the index is below n, and n >= 1 because a router's categories are validated `required,min=1` when the definition is read (value-level facts, confirmed by reading)",
	"(*flows.TemplateTranslation).Preview/index#3": "vars[variables[key]]: vars is built by Template.Templating with one entry per variable of this translation, and a component's variable map holds indexes into that same list — a cross-reference inside the template asset, which the asset source guarantees (assumption: template assets are internally consistent; not derivable from flow definitions or inputs)",
	"(*flows/runs.run).PathLocation/index#1":       "r.Path()[len(r.Path())-1] after the `== nil` test: a run's path is nil until its first step (NewRun does not set it) and grows by append in CreateStep only (the companion obligation run.path/nil-or-non-empty checks exactly that); ReadRun's make(len(path)) is empty only for a run that never visited a node, and PathLocation is asked only for the session's waiting or current run",
}
var c05IndexAllowed = map[string]string{}

// c05R7Packages: what an engine call executes besides the engine itself (router tests — flows/routers/cases — are
// evaluation code and covered by C04/R6 R7 with its arity wrappers).
var c05R7Packages = map[string]bool{"flows/engine": true, "flows/runs": true, "flows": true, "flows/actions": true, "flows/routers": true, "flows/routers/waits": true, "flows/routers/waits/hints": true,
	"flows/modifiers": true, "flows/inputs": true, "flows/triggers": true, "flows/resumes": true, "flows/events": true}

func c05R7(p *core.Program, r *core.Report) {
	r.Rule("R7", "no index panics in what an engine call executes: every constant or computed index / slice bound in flows, flows/engine, flows/runs, flows/actions, flows/routers (+waits, hints), flows/modifiers, flows/inputs, flows/triggers, flows/resumes and flows/events is within the length of the value it indexes on every path (same analysis as C04/R6, R7; lengths also through interface methods — every module implementation must yield the bound — and through the call sites of function literals), or listed")
	var fns []*ssa.Function
	for _, fn := range p.ModuleFunctions() {
		rel := core.RelPkg(core.FuncPkgPath(fn))
		if c05R7Packages[rel] && !p.IsTestFile(fn.Pos()) {
			fns = append(fns, fn)
		}
	}
	// companion of the listed PathLocation entry: who writes run.path, and what
	if pf := p.FieldOf("flows/runs", "run", "path"); pf == nil {
		r.Errorf("run.path not found")
	} else {
		// only needed while PathLocation relies on the nil test (a length test would be proven by the index analysis)
		needed := false
		if pl := p.Method("flows/runs", "run", "PathLocation"); pl != nil {
			for _, site := range varIndexSites(pl) {
				if miss, _ := decideVarIdx(site); miss != "" {
					needed = true
				}
			}
		} else {
			r.Errorf("run.PathLocation not found")
		}
		nw := 0
		for _, w := range p.FieldWrites(pf) {
			if p.IsTestFile(w.Instr.Pos()) {
				continue
			}
			nw++
			if !needed {
				r.OK("R7", core.FuncName(w.Fn)+"->run.path/nil-or-non-empty", p.Pos(w.Instr.Pos()), "not needed: PathLocation tests the length of the path")
				continue
			}
			isAppend := false
			if w.Val != nil {
				if c, ok := core.StripConv(w.Val).(*ssa.Call); ok {
					if bi, ok := c.Call.Value.(*ssa.Builtin); ok && bi.Name() == "append" && len(c.Call.Args) == 2 {
						isAppend = true
					}
				}
			}
			fnName := rootFn(w.Fn).Name()
			r.Check(isAppend || fnName == "ReadRun", "R7", core.FuncName(w.Fn)+"->run.path/nil-or-non-empty", p.Pos(w.Instr.Pos()), map[bool]string{true: "append of a step", false: "the reader"}[isAppend],
				"run.path is set to something that is neither nil nor the result of appending a step: PathLocation tells `no steps yet` by `Path() == nil` and then reads Path()[len-1], so a non-nil empty path panics with index -1 (when the step limit is hit on the first node of a freshly entered flow)")
		}
		r.Require("run_path_writers", nw, 2)
	}
	r.Count("engine_const_index_sites", constIndexRule(p, r, fns, "R7", c05IndexAllowed, false))
	r.Count("engine_variable_index_sites", varIndexRule(p, r, fns, "R7", c05VarIndexAllowed))
}
