// Command vcheck decides structural necessary conditions of the goflow properties by static analysis.
package main

import (
	"flag"
	"fmt"
	"os"
	"path/filepath"
	"runtime/debug"
	"sort"
	"strconv"
	"strings"

	"verif/checker/core"
	"verif/checker/rules"
)

func main() {
	repo := flag.String("repo", "/repo", "repository root")
	verif := flag.String("verif", "/verif", "verif directory (evidence, known findings)")
	prop := flag.String("prop", "", "property id (C01..C20) or 'all'")
	tier := flag.String("tier", "quick", "quick|thorough")
	overlay := flag.String("overlay", "", "JSON file: {relative path: content} analysed instead of the files on disk")
	noEvidence := flag.String("evidence-dir", "", "write evidence under this directory instead of -verif (used by self-tests)")
	list := flag.Bool("list", false, "list obligations")
	flag.Parse()
	if *prop == "" {
		fmt.Println("usage: vcheck -prop Cnn [-tier quick|thorough]")
		os.Exit(2)
	}
	seed := int64(0)
	if s := os.Getenv("VERIF_SEED"); s != "" {
		seed, _ = strconv.ParseInt(s, 10, 64)
	}
	debug.SetGCPercent(400)
	var props []string
	if *prop == "all" {
		for id := range rules.Registry {
			props = append(props, id)
		}
		sort.Strings(props)
	} else {
		props = strings.Split(*prop, ",")
	}
	for _, id := range props {
		if rules.Registry[id] == nil {
			fmt.Printf("ERROR unknown property %s\n", id)
			os.Exit(2)
		}
	}
	outDir := *verif
	if *noEvidence != "" {
		outDir = *noEvidence
	}
	known, err := core.LoadKnown(filepath.Join(*verif, "known_findings.json"))
	if err != nil {
		fmt.Printf("ERROR known_findings.json: %v\n", err)
		os.Exit(2)
	}
	p, err := core.Load(*repo, false, *overlay, "")
	if err != nil {
		// a tree that does not type-check cannot be decided; this is not a property violation
		fmt.Printf("ERROR load: %v\n", err)
		for _, id := range props {
			r := core.NewReport(id, *tier)
			r.Errorf("load failed: %v", err)
			r.Finish(outDir, known, seed, true)
		}
		os.Exit(2)
	}
	exit := 0
	for _, id := range props {
		r := core.NewReport(id, *tier)
		r.Count("packages", len(p.Pkgs))
		func() {
			defer func() {
				if e := recover(); e != nil {
					r.Errorf("analyser panic: %v\n%s", e, debug.Stack())
				}
			}()
			rules.Registry[id](p, r)
		}()
		if *list {
			for _, o := range r.Obs {
				fmt.Printf("  %-14s %s  %s  %s\n", o.Status, o.Key, o.Pos, o.Detail)
			}
		}
		code := r.Finish(outDir, known, seed, false)
		if code == 1 || (code == 2 && exit == 0) {
			exit = code
		}
	}
	os.Exit(exit)
}
