package core

import (
	"encoding/json"
	"fmt"
	"os"
	"path/filepath"
	"sort"
	"strings"
	"time"
)

// Status of an obligation.
type Status string

const (
	Discharged Status = "discharged"
	Violated   Status = "violated"
	Known      Status = "known-finding"
	Undecided  Status = "undecided"
)

// Obligation is one decided (or undecided) instance of a rule on a resolved program construct.
type Obligation struct {
	Key    string   `json:"key"` // <prop>/<rule>/<construct>
	Rule   string   `json:"rule"`
	Pos    string   `json:"pos,omitempty"`
	Status Status   `json:"status"`
	Detail string   `json:"detail,omitempty"`
	Path   []string `json:"path,omitempty"`
}

// Report accumulates what a property check covered.
type Report struct {
	Prop     string
	Tier     string
	Obs      []*Obligation
	keys     map[string]*Obligation
	Analysed map[string]int
	Rules    []string // rule descriptions
	Assume   []string
	Errors   []string // hard errors: anchor missing, count below minimum
	Tables   map[string]any
	start    time.Time
}

func NewReport(prop, tier string) *Report {
	return &Report{Prop: prop, Tier: tier, keys: map[string]*Obligation{}, Analysed: map[string]int{}, Tables: map[string]any{}, start: time.Now()}
}

func (r *Report) add(rule, construct, pos string, st Status, detail string, path []string) *Obligation {
	key := r.Prop + "/" + rule + "/" + construct
	if o, ok := r.keys[key]; ok {
		// the worst status wins; details are concatenated
		if rank(st) > rank(o.Status) {
			o.Status = st
			o.Pos = pos
			o.Detail = detail
			o.Path = path
		} else if rank(st) == rank(o.Status) && st != Discharged && detail != "" && !strings.Contains(o.Detail, detail) {
			o.Detail += "; " + detail
		}
		return o
	}
	o := &Obligation{Key: key, Rule: rule, Pos: pos, Status: st, Detail: detail, Path: path}
	r.keys[key] = o
	r.Obs = append(r.Obs, o)
	return o
}

func rank(s Status) int {
	switch s {
	case Discharged:
		return 0
	case Undecided:
		return 2
	case Violated:
		return 3
	}
	return 1
}

// OK records a discharged obligation.
func (r *Report) OK(rule, construct, pos, detail string) {
	r.add(rule, construct, pos, Discharged, detail, nil)
}

// Bad records a violated obligation.
func (r *Report) Bad(rule, construct, pos, detail string, path ...string) {
	r.add(rule, construct, pos, Violated, detail, path)
}

// Unknown records an undecided obligation (check exits 2).
func (r *Report) Unknown(rule, construct, pos, detail string) {
	r.add(rule, construct, pos, Undecided, detail, nil)
}

// Check records OK or Bad depending on cond.
func (r *Report) Check(cond bool, rule, construct, pos, okDetail, badDetail string) bool {
	if cond {
		r.OK(rule, construct, pos, okDetail)
	} else {
		r.Bad(rule, construct, pos, badDetail)
	}
	return cond
}

// Rule documents a rule in the evidence.
func (r *Report) Rule(id, text string) { r.Rules = append(r.Rules, id+": "+text) }

// Assumption documents an assumption.
func (r *Report) Assumption(text string) { r.Assume = append(r.Assume, text) }

// Count records an analysed-unit count.
func (r *Report) Count(name string, n int) { r.Analysed[name] += n }

// Require fails the check (ERROR, exit 2) when an anchor count is below the hand-confirmed minimum.
func (r *Report) Require(name string, got, min int) bool {
	r.Analysed[name] = got
	if got < min {
		r.Errors = append(r.Errors, fmt.Sprintf("instance count %s=%d below confirmed minimum %d", name, got, min))
		return false
	}
	return true
}

// Errorf records a hard error (unresolved anchor etc.).
func (r *Report) Errorf(format string, a ...any) {
	r.Errors = append(r.Errors, fmt.Sprintf(format, a...))
}

// KnownFinding is an entry of /verif/known_findings.json.
type KnownFinding struct {
	Property string `json:"property"`
	Key      string `json:"key"`
	What     string `json:"what"`
	Status   string `json:"status"` // open | fixed
	Commit   string `json:"commit,omitempty"`
	Note     string `json:"note,omitempty"`
}

type knownFile struct {
	Findings []KnownFinding `json:"findings"`
	Fixed    []string       `json:"fixed,omitempty"`
}

// LoadKnown reads the committed known-findings file.
func LoadKnown(path string) ([]KnownFinding, error) {
	b, err := os.ReadFile(path)
	if err != nil {
		if os.IsNotExist(err) {
			return nil, nil
		}
		return nil, err
	}
	var kf knownFile
	if err := json.Unmarshal(b, &kf); err != nil {
		return nil, err
	}
	return kf.Findings, nil
}

// Finish applies known findings, prints the result lines, writes evidence and replay files and returns the exit code.
func (r *Report) Finish(verifDir string, known []KnownFinding, seed int64, quiet bool) int {
	open := map[string]KnownFinding{}
	for _, k := range known {
		if k.Property == r.Prop && k.Status == "open" {
			open[k.Key] = k
		}
	}
	sort.SliceStable(r.Obs, func(i, j int) bool { return r.Obs[i].Key < r.Obs[j].Key })
	var nViol, nKnown, nUndec, nDis int
	replayDir := filepath.Join(verifDir, "evidence", "replay")
	for _, o := range r.Obs {
		switch o.Status {
		case Violated:
			if k, ok := open[o.Key]; ok {
				o.Status = Known
				nKnown++
				fmt.Printf("KNOWN-FINDING: property=%s %s — %s [%s %s]\n", r.Prop, k.What, o.Detail, o.Key, o.Pos)
				continue
			}
			nViol++
			os.MkdirAll(replayDir, 0o755)
			name := strings.NewReplacer("/", "_", " ", "_", "*", "", "(", "", ")", "", "\"", "", ":", "_").Replace(o.Key)
			if len(name) > 150 {
				name = name[:150]
			}
			rp := filepath.Join(replayDir, name+".json")
			b, _ := json.MarshalIndent(o, "", " ")
			os.WriteFile(rp, b, 0o644)
			fmt.Printf("VIOLATION property=%s replay=%s\n", r.Prop, rp)
			fmt.Printf("  rule=%s at %s key=%s\n  %s\n", o.Rule, o.Pos, o.Key, o.Detail)
			for _, s := range o.Path {
				fmt.Printf("    path: %s\n", s)
			}
		case Undecided:
			nUndec++
			fmt.Printf("UNDECIDED property=%s %s at %s: %s\n", r.Prop, o.Key, o.Pos, o.Detail)
		case Discharged:
			nDis++
		}
	}
	for _, e := range r.Errors {
		fmt.Printf("ERROR property=%s %s\n", r.Prop, e)
	}
	wall := time.Since(r.start).Seconds()
	// evidence
	distinct := map[string]bool{}
	for _, o := range r.Obs {
		distinct[o.Key] = true
	}
	var samples []any
	perRule := map[string]int{}
	for _, o := range r.Obs {
		if perRule[o.Rule] < 2 || o.Status != Discharged {
			if len(samples) < 60 {
				samples = append(samples, o)
			}
			perRule[o.Rule]++
		}
	}
	ruleCounts := map[string]int{}
	for _, o := range r.Obs {
		ruleCounts[o.Rule]++
	}
	expl := "Static analysis (go/packages + go/types + go/ssa + call graph) of /repo's current source; no goflow code is executed. " +
		"Structural necessary conditions of the property are decided per rule: " + strings.Join(r.Rules, " | ")
	ev := map[string]any{
		"property_id": r.Prop,
		"tier":        r.Tier,
		"seed":        seed,
		"level":       "other",
		"coverage": map[string]any{
			"explanation":         expl,
			"obligations":         len(r.Obs),
			"discharged":          nDis,
			"known_findings":      nKnown,
			"undecided":           nUndec,
			"evaluations":         len(r.Obs),
			"distinct_nontrivial": len(distinct),
			"rule":                "one obligation per (rule, resolved program construct); distinct = distinct obligation keys; every obligation is evaluated on the type-checked/SSA form of the current tree",
			"samples":             samples,
			"analysed":            r.Analysed,
			"obligations_by_rule": ruleCounts,
			"tables":              r.Tables,
			"checker_cmd":         "bin/vcheck -repo /repo -prop " + r.Prop + " -tier " + r.Tier,
			"trusted_base":        []string{"go/types and go/ssa (x/tools v0.29.0)", "VTA/CHA call-graph over-approximation of interface dispatch", "frozen tables in /verif/checker/rules (each entry carries its reason)"},
		},
		"assumptions": r.Assume,
		"wall_s":      wall,
		"violations":  nViol,
	}
	os.MkdirAll(filepath.Join(verifDir, "evidence"), 0o755)
	b, _ := json.MarshalIndent(ev, "", " ")
	if err := os.WriteFile(filepath.Join(verifDir, "evidence", r.Prop+".json"), b, 0o644); err != nil {
		fmt.Printf("ERROR property=%s cannot write evidence: %v\n", r.Prop, err)
		return 2
	}
	if !quiet {
		var names []string
		for k := range r.Analysed {
			names = append(names, k)
		}
		sort.Strings(names)
		var parts []string
		for _, k := range names {
			parts = append(parts, fmt.Sprintf("%s=%d", k, r.Analysed[k]))
		}
		fmt.Printf("SUMMARY property=%s tier=%s obligations=%d discharged=%d known=%d violated=%d undecided=%d errors=%d wall=%.1fs analysed[%s]\n",
			r.Prop, r.Tier, len(r.Obs), nDis, nKnown, nViol, nUndec, len(r.Errors), wall, strings.Join(parts, " "))
	}
	if nViol > 0 {
		return 1
	}
	if nUndec > 0 || len(r.Errors) > 0 {
		return 2
	}
	return 0
}
