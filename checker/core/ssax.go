package core

import (
	"go/constant"
	"go/token"
	"go/types"
	"sort"
	"strings"

	"golang.org/x/tools/go/ssa"
)

// CallSite is one call instruction in the module.
type CallSite struct {
	Instr  ssa.CallInstruction
	Caller *ssa.Function
}

func (c CallSite) Common() *ssa.CallCommon { return c.Instr.Common() }
func (c CallSite) Pos() token.Pos {
	if c.Instr.Pos().IsValid() {
		return c.Instr.Pos()
	}
	return c.Caller.Pos()
}

// CalleeObj returns the types.Func a call resolves to statically: the declared function/method for static
// calls, the interface method for invokes, nil for dynamic calls of function values.
func CalleeObj(c *ssa.CallCommon) *types.Func {
	if c.IsInvoke() {
		return c.Method
	}
	if f := c.StaticCallee(); f != nil {
		if o, ok := f.Object().(*types.Func); ok {
			return o
		}
		if f.Origin() != nil {
			if o, ok := f.Origin().Object().(*types.Func); ok {
				return o
			}
		}
	}
	return nil
}

// ObjName renders a types.Func as relpkg.Func or relpkg.Type.Method (pointerness dropped).
func ObjName(o *types.Func) string {
	if o == nil {
		return ""
	}
	sig, _ := o.Type().(*types.Signature)
	pkg := ""
	if o.Pkg() != nil {
		pkg = RelPkgAny(o.Pkg().Path())
	}
	if sig != nil && sig.Recv() != nil {
		t := sig.Recv().Type()
		if pt, ok := t.(*types.Pointer); ok {
			t = pt.Elem()
		}
		if n, ok := t.(*types.Named); ok {
			return pkg + "." + n.Obj().Name() + "." + o.Name()
		}
		// interface method declared in an unnamed interface embedded somewhere
		return pkg + ".?." + o.Name()
	}
	return pkg + "." + o.Name()
}

// RelPkgAny strips the module prefix for module packages and leaves other paths alone.
func RelPkgAny(path string) string {
	if InModule(path) {
		r := RelPkg(path)
		if r == "" {
			return "goflow"
		}
		return r
	}
	return path
}

// EachInstr calls f for every instruction of fn and its anonymous functions (if deep).
func EachInstr(fn *ssa.Function, deep bool, f func(fn *ssa.Function, in ssa.Instruction)) {
	for _, b := range fn.Blocks {
		for _, in := range b.Instrs {
			f(fn, in)
		}
	}
	if deep {
		for _, a := range fn.AnonFuncs {
			EachInstr(a, true, f)
		}
	}
}

// Calls lists every call instruction (call, go, defer) in fn.
func Calls(fn *ssa.Function, deep bool) []CallSite {
	var out []CallSite
	EachInstr(fn, deep, func(f *ssa.Function, in ssa.Instruction) {
		if ci, ok := in.(ssa.CallInstruction); ok {
			out = append(out, CallSite{ci, f})
		}
	})
	return out
}

// AllCalls lists every call instruction of the module's functions.
func (p *Program) AllCalls() []CallSite {
	var out []CallSite
	for _, fn := range p.ModuleFunctions() {
		out = append(out, Calls(fn, false)...)
	}
	return out
}

// CallsToName returns the call sites in the module whose callee object renders (ObjName) to one of names.
// Interface invokes render with the interface's type name, e.g. "flows.Run.Exit".
func (p *Program) CallsToName(names ...string) []CallSite {
	set := map[string]bool{}
	for _, n := range names {
		set[n] = true
	}
	var out []CallSite
	for _, cs := range p.AllCalls() {
		if o := CalleeObj(cs.Common()); o != nil && set[ObjName(o)] {
			out = append(out, cs)
		}
	}
	return out
}

// MayCall reports whether the call can land in target: static callee equals target (or an instantiation),
// or an interface invoke of a method with target's name on an interface that target's receiver implements.
func MayCall(c *ssa.CallCommon, target *ssa.Function) bool {
	if target == nil {
		return false
	}
	if c.IsInvoke() {
		if c.Method.Name() != target.Name() || target.Signature.Recv() == nil {
			return false
		}
		it, ok := c.Value.Type().Underlying().(*types.Interface)
		if !ok {
			return false
		}
		return types.Implements(target.Signature.Recv().Type(), it)
	}
	if f := c.StaticCallee(); f != nil {
		if f == target || f.Origin() == target {
			return true
		}
		// bound method closures / thunks
		if f.Synthetic != "" && f.Object() != nil && f.Object() == target.Object() {
			return true
		}
	}
	return false
}

// CallsTo returns all module call sites that may land in target (CHA-precise on the receiver interface).
func (p *Program) CallsTo(target *ssa.Function) []CallSite {
	var out []CallSite
	for _, cs := range p.AllCalls() {
		if MayCall(cs.Common(), target) {
			out = append(out, cs)
		}
	}
	return out
}

// FieldOf resolves struct field `name` of named type rel.typ.
func (p *Program) FieldOf(rel, typ, name string) *types.Var {
	n := p.NamedType(rel, typ)
	if n == nil {
		return nil
	}
	st, ok := n.Underlying().(*types.Struct)
	if !ok {
		return nil
	}
	for i := 0; i < st.NumFields(); i++ {
		if st.Field(i).Name() == name {
			return st.Field(i)
		}
	}
	return nil
}

// FieldAddrVar returns the field variable addressed by a FieldAddr / Field instruction.
func FieldAddrVar(v ssa.Value) *types.Var {
	switch x := v.(type) {
	case *ssa.FieldAddr:
		t := x.X.Type().Underlying()
		if pt, ok := t.(*types.Pointer); ok {
			t = pt.Elem().Underlying()
		}
		if st, ok := t.(*types.Struct); ok {
			return st.Field(x.Field)
		}
	case *ssa.Field:
		if st, ok := x.X.Type().Underlying().(*types.Struct); ok {
			return st.Field(x.Field)
		}
	}
	return nil
}

// FieldWrite is a store to a struct field (directly, or to an element of the map/slice held by it).
type FieldWrite struct {
	Fn    *ssa.Function
	Instr ssa.Instruction
	Field *types.Var
	Val   ssa.Value // stored value (nil for map update / composite)
	Kind  string    // store | mapupdate | elemstore
}

// FieldWrites enumerates every SSA store whose address is a FieldAddr of the given field, plus MapUpdate /
// element stores on a value loaded from that field, across all module functions.
func (p *Program) FieldWrites(field *types.Var) []FieldWrite {
	var out []FieldWrite
	for _, fn := range p.ModuleFunctions() {
		EachInstr(fn, false, func(f *ssa.Function, in ssa.Instruction) {
			switch s := in.(type) {
			case *ssa.Store:
				if FieldAddrVar(s.Addr) == field {
					out = append(out, FieldWrite{f, in, field, s.Val, "store"})
				} else if ia, ok := s.Addr.(*ssa.IndexAddr); ok {
					if loadedFromField(ia.X, field) {
						out = append(out, FieldWrite{f, in, field, s.Val, "elemstore"})
					}
				}
			case *ssa.MapUpdate:
				if loadedFromField(s.Map, field) {
					out = append(out, FieldWrite{f, in, field, s.Value, "mapupdate"})
				}
			}
		})
	}
	return out
}

func loadedFromField(v ssa.Value, field *types.Var) bool {
	switch x := v.(type) {
	case *ssa.UnOp:
		if x.Op == token.MUL {
			return FieldAddrVar(x.X) == field
		}
	case *ssa.Field:
		return FieldAddrVar(x) == field
	}
	return false
}

// ConstString returns the string value of a constant SSA value (following trivial conversions).
func ConstString(v ssa.Value) (string, bool) {
	v = StripConv(v)
	if c, ok := v.(*ssa.Const); ok && c.Value != nil && c.Value.Kind() == constant.String {
		return constant.StringVal(c.Value), true
	}
	return "", false
}

// ConstInt returns the integer value of a constant SSA value.
func ConstInt(v ssa.Value) (int64, bool) {
	v = StripConv(v)
	if c, ok := v.(*ssa.Const); ok && c.Value != nil && c.Value.Kind() == constant.Int {
		i, ok := constant.Int64Val(c.Value)
		return i, ok
	}
	return 0, false
}

// IsNilConst reports whether v is the nil constant.
func IsNilConst(v ssa.Value) bool {
	c, ok := v.(*ssa.Const)
	return ok && c.Value == nil
}

// StripConv removes ChangeType / Convert / MakeInterface / ChangeInterface wrappers.
func StripConv(v ssa.Value) ssa.Value {
	for {
		switch x := v.(type) {
		case *ssa.ChangeType:
			v = x.X
		case *ssa.Convert:
			v = x.X
		case *ssa.MakeInterface:
			v = x.X
		case *ssa.ChangeInterface:
			v = x.X
		default:
			return v
		}
	}
}

// InstrDominates reports whether instruction a strictly precedes b on every path (same function).
func InstrDominates(a, b ssa.Instruction) bool {
	ba, bb := a.Block(), b.Block()
	if ba == nil || bb == nil || ba.Parent() != bb.Parent() {
		return false
	}
	if ba == bb {
		for _, in := range ba.Instrs {
			if in == a {
				return true
			}
			if in == b {
				return false
			}
		}
		return false
	}
	return ba.Dominates(bb)
}

// Reachable computes the set of blocks reachable from `from` (inclusive) without passing through blocks in stop.
func Reachable(from *ssa.BasicBlock, stop map[*ssa.BasicBlock]bool) map[*ssa.BasicBlock]bool {
	seen := map[*ssa.BasicBlock]bool{}
	var walk func(b *ssa.BasicBlock)
	walk = func(b *ssa.BasicBlock) {
		if seen[b] || stop[b] {
			return
		}
		seen[b] = true
		for _, s := range b.Succs {
			walk(s)
		}
	}
	walk(from)
	return seen
}

// PostDom computes the post-dominator sets of fn's blocks with respect to all exits (Return/Panic blocks).
// pd[b][c] == true means c post-dominates b (every path from b to an exit passes through c).
type PostDom struct {
	fn   *ssa.Function
	sets []map[int]bool
}

func NewPostDom(fn *ssa.Function) *PostDom {
	n := len(fn.Blocks)
	pd := &PostDom{fn: fn, sets: make([]map[int]bool, n)}
	all := map[int]bool{}
	for i := 0; i < n; i++ {
		all[i] = true
	}
	isExit := func(b *ssa.BasicBlock) bool { return len(b.Succs) == 0 }
	for i, b := range fn.Blocks {
		if isExit(b) {
			pd.sets[i] = map[int]bool{i: true}
		} else {
			m := map[int]bool{}
			for k := range all {
				m[k] = true
			}
			pd.sets[i] = m
		}
	}
	changed := true
	for changed {
		changed = false
		for i := n - 1; i >= 0; i-- {
			b := fn.Blocks[i]
			if isExit(b) {
				continue
			}
			var inter map[int]bool
			for _, s := range b.Succs {
				if inter == nil {
					inter = map[int]bool{}
					for k := range pd.sets[s.Index] {
						inter[k] = true
					}
				} else {
					for k := range inter {
						if !pd.sets[s.Index][k] {
							delete(inter, k)
						}
					}
				}
			}
			inter[i] = true
			if len(inter) != len(pd.sets[i]) {
				pd.sets[i] = inter
				changed = true
			}
		}
	}
	return pd
}

// PostDominates reports whether block c post-dominates block b.
func (pd *PostDom) PostDominates(c, b *ssa.BasicBlock) bool { return pd.sets[b.Index][c.Index] }

// BackSlice collects the values v transitively depends on through value-forwarding instructions.
// follow decides whether to descend through a call's arguments (e.g. transparent string helpers).
func BackSlice(v ssa.Value, follow func(c *ssa.Call) bool) map[ssa.Value]bool {
	seen := map[ssa.Value]bool{}
	var walk func(v ssa.Value)
	walk = func(v ssa.Value) {
		if v == nil || seen[v] {
			return
		}
		seen[v] = true
		switch x := v.(type) {
		case *ssa.Phi:
			for _, e := range x.Edges {
				walk(e)
			}
		case *ssa.Extract:
			walk(x.Tuple)
		case *ssa.ChangeType:
			walk(x.X)
		case *ssa.Convert:
			walk(x.X)
		case *ssa.MakeInterface:
			walk(x.X)
		case *ssa.ChangeInterface:
			walk(x.X)
		case *ssa.TypeAssert:
			walk(x.X)
		case *ssa.UnOp:
			walk(x.X)
		case *ssa.BinOp:
			walk(x.X)
			walk(x.Y)
		case *ssa.Field:
			walk(x.X)
		case *ssa.FieldAddr:
			walk(x.X)
		case *ssa.Index:
			walk(x.X)
		case *ssa.IndexAddr:
			walk(x.X)
		case *ssa.Slice:
			walk(x.X)
		case *ssa.Lookup:
			walk(x.X)
			walk(x.Index)
		case *ssa.Call:
			if follow != nil && follow(x) {
				for _, a := range x.Call.Args {
					walk(a)
				}
				if x.Call.IsInvoke() {
					walk(x.Call.Value)
				}
			}
		case *ssa.Alloc:
			// local variable: follow stores into it
			for _, r := range *x.Referrers() {
				switch st := r.(type) {
				case *ssa.Store:
					if st.Addr == x {
						walk(st.Val)
					}
				case *ssa.IndexAddr, *ssa.FieldAddr:
					// stores into an element/field of the local (e.g. the backing array of a variadic argument)
					for _, r2 := range *st.(ssa.Value).Referrers() {
						if s2, ok := r2.(*ssa.Store); ok && s2.Addr == st.(ssa.Value) {
							walk(s2.Val)
						}
					}
				}
			}
		}
	}
	walk(v)
	return seen
}

// DerivesFromCall reports whether v's backward slice contains a call whose callee ObjName is in names.
func DerivesFromCall(v ssa.Value, follow func(c *ssa.Call) bool, names ...string) bool {
	set := map[string]bool{}
	for _, n := range names {
		set[n] = true
	}
	for x := range BackSlice(v, follow) {
		if c, ok := x.(*ssa.Call); ok {
			if o := CalleeObj(&c.Call); o != nil && set[ObjName(o)] {
				return true
			}
		}
	}
	return false
}

// Returns lists the return instructions of fn.
func Returns(fn *ssa.Function) []*ssa.Return {
	var out []*ssa.Return
	for _, b := range fn.Blocks {
		if len(b.Instrs) == 0 {
			continue
		}
		if r, ok := b.Instrs[len(b.Instrs)-1].(*ssa.Return); ok {
			out = append(out, r)
		}
	}
	return out
}

// SortedKeys returns the sorted keys of a string-keyed map.
func SortedKeys[V any](m map[string]V) []string {
	out := make([]string, 0, len(m))
	for k := range m {
		out = append(out, k)
	}
	sort.Strings(out)
	return out
}

// ShortType renders a type with module prefix stripped.
func ShortType(t types.Type) string {
	return strings.ReplaceAll(types.TypeString(t, func(p *types.Package) string { return RelPkgAny(p.Path()) }), ModPath+"/", "")
}

// ReachableFuncs computes the functions reachable in the call graph from roots, not descending into
// functions for which stop returns true.
func (p *Program) ReachableFuncs(roots []*ssa.Function, stop func(*ssa.Function) bool, useCHA bool) map[*ssa.Function][]*ssa.Function {
	cg := p.CG()
	if useCHA {
		cg = p.CHA()
	}
	// parent map for path reconstruction
	parent := map[*ssa.Function][]*ssa.Function{}
	var queue []*ssa.Function
	for _, r := range roots {
		if r == nil {
			continue
		}
		if _, ok := parent[r]; !ok {
			parent[r] = []*ssa.Function{r}
			queue = append(queue, r)
		}
	}
	for len(queue) > 0 {
		f := queue[0]
		queue = queue[1:]
		n := cg.Nodes[f]
		if n == nil {
			continue
		}
		for _, e := range n.Out {
			c := e.Callee.Func
			if _, ok := parent[c]; ok {
				continue
			}
			if stop != nil && stop(c) {
				continue
			}
			path := append(append([]*ssa.Function{}, parent[f]...), c)
			parent[c] = path
			queue = append(queue, c)
		}
	}
	return parent
}

// PathString renders a call path.
func PathString(path []*ssa.Function) []string {
	var out []string
	for _, f := range path {
		out = append(out, FuncName(f))
	}
	return out
}

// CondEdge is a branch condition together with the edge (true/false) on which a block depends.
type CondEdge struct {
	Cond  ssa.Value
	Taken bool
	If    *ssa.If
}

// ControlDeps computes, for every block of fn, the branch edges it is control dependent on, on the CFG with loop
// back edges removed (so the result describes one iteration: which conditions decide whether b executes once its
// loop body is entered): b depends on edge d->s when b post-dominates s (or is s) and does not post-dominate d.
// This is a MAY notion (a block guarded by `a || b` depends on both): use it for "no other filter" rules.
type ControlDeps struct {
	fn     *ssa.Function
	direct map[*ssa.BasicBlock][]CondEdge
	from   map[*ssa.BasicBlock][]*ssa.BasicBlock
}

// acyclic post-dominators: successors reached through a back edge (target dominates source) are treated as exits.
func acyclicPostDom(fn *ssa.Function) []map[int]bool {
	n := len(fn.Blocks)
	sets := make([]map[int]bool, n)
	succs := make([][]*ssa.BasicBlock, n)
	toExit := make([]bool, n) // has a back-edge successor: modelled as an edge to a virtual exit
	for i, b := range fn.Blocks {
		for _, s := range b.Succs {
			if s.Dominates(b) {
				toExit[i] = true
				continue // back edge
			}
			succs[i] = append(succs[i], s)
		}
	}
	for i := range fn.Blocks {
		if len(succs[i]) == 0 {
			sets[i] = map[int]bool{i: true}
		} else {
			m := map[int]bool{}
			for k := 0; k < n; k++ {
				m[k] = true
			}
			sets[i] = m
		}
	}
	for changed := true; changed; {
		changed = false
		for i := n - 1; i >= 0; i-- {
			if len(succs[i]) == 0 {
				continue
			}
			var inter map[int]bool
			if toExit[i] {
				inter = map[int]bool{} // the virtual exit is post-dominated by no real block
			}
			for _, s := range succs[i] {
				if inter == nil {
					inter = map[int]bool{}
					for k := range sets[s.Index] {
						inter[k] = true
					}
				} else {
					for k := range inter {
						if !sets[s.Index][k] {
							delete(inter, k)
						}
					}
				}
			}
			inter[i] = true
			if len(inter) != len(sets[i]) {
				sets[i] = inter
				changed = true
			}
		}
	}
	return sets
}

func NewControlDeps(fn *ssa.Function) *ControlDeps {
	cd := &ControlDeps{fn: fn, direct: map[*ssa.BasicBlock][]CondEdge{}, from: map[*ssa.BasicBlock][]*ssa.BasicBlock{}}
	pd := acyclicPostDom(fn)
	for _, d := range fn.Blocks {
		if len(d.Instrs) == 0 {
			continue
		}
		iff, ok := d.Instrs[len(d.Instrs)-1].(*ssa.If)
		if !ok {
			continue
		}
		for k, s := range d.Succs {
			if s.Dominates(d) {
				continue // back edge: taking it ends the iteration
			}
			for _, b := range fn.Blocks {
				if (b == s || pd[s.Index][b.Index]) && !(b != d && pd[d.Index][b.Index]) {
					cd.direct[b] = append(cd.direct[b], CondEdge{Cond: iff.Cond, Taken: k == 0, If: iff})
					cd.from[b] = append(cd.from[b], d)
				}
			}
		}
	}
	return cd
}

// Of returns the transitive controlling edges of block b (deduplicated).
func (cd *ControlDeps) Of(b *ssa.BasicBlock) []CondEdge {
	var out []CondEdge
	seenB := map[*ssa.BasicBlock]bool{}
	type ek struct {
		i *ssa.If
		t bool
	}
	seenE := map[ek]bool{}
	var walk func(x *ssa.BasicBlock)
	walk = func(x *ssa.BasicBlock) {
		if seenB[x] {
			return
		}
		seenB[x] = true
		for i, e := range cd.direct[x] {
			k := ek{e.If, e.Taken}
			if !seenE[k] {
				seenE[k] = true
				out = append(out, e)
			}
			walk(cd.from[x][i])
		}
	}
	walk(b)
	return out
}

var cdCache = map[*ssa.Function]*ControlDeps{}

// MayConds returns every branch edge that can decide, within one loop iteration, whether block b executes.
func MayConds(b *ssa.BasicBlock) []CondEdge {
	fn := b.Parent()
	cd := cdCache[fn]
	if cd == nil {
		cd = NewControlDeps(fn)
		cdCache[fn] = cd
	}
	return cd.Of(b)
}

// ControllingConds returns the branch edges that DOMINATE block b: every path from the entry to b takes the edge,
// so the condition (with that polarity) held the last time it was evaluated before b runs. This is the MUST notion
// guards need: `if a && b {X}` yields both for X, `if a || b {X}` yields neither.
func ControllingConds(b *ssa.BasicBlock) []CondEdge {
	var out []CondEdge
	for d := b.Idom(); d != nil; d = d.Idom() {
		if len(d.Instrs) == 0 {
			continue
		}
		iff, ok := d.Instrs[len(d.Instrs)-1].(*ssa.If)
		if !ok || d.Succs[0] == d.Succs[1] {
			continue
		}
		for k, s := range d.Succs {
			if !s.Dominates(b) {
				continue
			}
			// the edge d->s dominates s when every other predecessor of s is dominated by s (loop back edges)
			edgeDom := true
			for _, pr := range s.Preds {
				if pr != d && !s.Dominates(pr) {
					edgeDom = false
				}
			}
			if pr := s.Preds; len(pr) == 0 {
				edgeDom = false
			}
			// s must not also be reachable as the other successor
			if edgeDom {
				out = append(out, CondEdge{Cond: iff.Cond, Taken: k == 0, If: iff})
			}
		}
	}
	return out
}

// EffCall is a call that happens on behalf of a function: either directly in it (Outer == Inner.Instr) or inside a
// helper of the same package that it calls (Outer is the call of the helper in the function, Chain the helpers entered).
// Rules that reason about order, dominance or guards in the function use Outer; rules about the call itself use Inner.
type EffCall struct {
	Outer ssa.Instruction
	Inner CallSite
	Chain []*ssa.Function
}

// InnerConds: the branch conditions inside the helpers that decide whether the inner call runs (MayConds per level).
func (e EffCall) InnerConds() []CondEdge {
	var out []CondEdge
	if len(e.Chain) > 0 {
		out = append(out, MayConds(e.Inner.Instr.Block())...)
	}
	return out
}

// EffectiveCalls lists the calls made by fn and, transitively up to depth, by the functions of its own package that
// it calls statically (helpers a refactoring may have extracted) and by its function literals.
func EffectiveCalls(fn *ssa.Function, depth int) []EffCall {
	var out []EffCall
	pkg := FuncPkgPath(fn)
	var walk func(f *ssa.Function, outer ssa.Instruction, chain []*ssa.Function, d int, seen map[*ssa.Function]bool)
	walk = func(f *ssa.Function, outer ssa.Instruction, chain []*ssa.Function, d int, seen map[*ssa.Function]bool) {
		for _, cs := range Calls(f, false) {
			o := outer
			if o == nil {
				o = cs.Instr
			}
			out = append(out, EffCall{Outer: o, Inner: cs, Chain: chain})
			g := cs.Common().StaticCallee()
			if g == nil {
				if mc, ok := cs.Common().Value.(*ssa.MakeClosure); ok {
					g, _ = mc.Fn.(*ssa.Function)
				}
			}
			if g == nil || len(g.Blocks) == 0 || d >= depth || seen[g] || FuncPkgPath(g) != pkg {
				continue
			}
			seen[g] = true
			walk(g, o, append(append([]*ssa.Function{}, chain...), g), d+1, seen)
			delete(seen, g)
		}
	}
	walk(fn, nil, nil, 0, map[*ssa.Function]bool{fn: true})
	return out
}

// HelperClosure extends a set of functions with every function of the same packages all of whose call sites (in
// non-test code) lie in functions already in the set: a helper extracted from an owner acts on the owner's behalf.
func (p *Program) HelperClosure(owners map[*ssa.Function]bool) map[*ssa.Function]bool {
	out := map[*ssa.Function]bool{}
	pkgs := map[string]bool{}
	for f := range owners {
		out[f] = true
		pkgs[FuncPkgPath(f)] = true
	}
	callers := map[*ssa.Function][]*ssa.Function{}
	for _, cs := range p.AllCalls() {
		if p.IsTestFile(cs.Pos()) {
			continue
		}
		g := cs.Common().StaticCallee()
		if g == nil {
			if mc, ok := cs.Common().Value.(*ssa.MakeClosure); ok {
				g, _ = mc.Fn.(*ssa.Function)
			}
		}
		if g != nil && pkgs[FuncPkgPath(g)] {
			caller := cs.Caller
			for caller.Parent() != nil {
				caller = caller.Parent()
			}
			callers[g] = append(callers[g], caller)
		}
	}
	for changed := true; changed; {
		changed = false
		for g, cl := range callers {
			if out[g] || len(cl) == 0 || g.Object() == nil || g.Object().Exported() {
				continue
			}
			all := true
			for _, c := range cl {
				if !out[c] && c != g {
					all = false
				}
			}
			if all {
				out[g] = true
				changed = true
			}
		}
	}
	return out
}

// DerivesFromCallDeep: v's backward slice (through call arguments) contains a call of one of the named functions, also
// when that call sits inside a function of the same package whose result flows into v (a helper a refactoring may
// have extracted), up to depth levels.
func DerivesFromCallDeep(v ssa.Value, depth int, names ...string) bool {
	set := map[string]bool{}
	for _, n := range names {
		set[n] = true
	}
	var visit func(v ssa.Value, d int, pkg string) bool
	visit = func(v ssa.Value, d int, pkg string) bool {
		for x := range BackSlice(v, func(*ssa.Call) bool { return true }) {
			c, ok := x.(*ssa.Call)
			if !ok {
				continue
			}
			if o := CalleeObj(&c.Call); o != nil && set[ObjName(o)] {
				return true
			}
			if f := c.Call.StaticCallee(); f != nil && d < depth && len(f.Blocks) > 0 && FuncPkgPath(f) == pkg {
				for _, ret := range Returns(f) {
					for _, rv := range ret.Results {
						if visit(rv, d+1, pkg) {
							return true
						}
					}
				}
			}
		}
		return false
	}
	pkg := ""
	if in, ok := v.(ssa.Instruction); ok && in.Parent() != nil {
		pkg = FuncPkgPath(in.Parent())
	} else if prm, ok := v.(*ssa.Parameter); ok && prm.Parent() != nil {
		pkg = FuncPkgPath(prm.Parent())
	}
	return visit(v, 0, pkg)
}

// VariadicArgs returns the values stored into the backing array of a variadic argument (new [n]T; stores; slice),
// in index order; nil when v is not of that shape.
func VariadicArgs(v ssa.Value) []ssa.Value {
	sl, ok := v.(*ssa.Slice)
	if !ok {
		return nil
	}
	al, ok := sl.X.(*ssa.Alloc)
	if !ok {
		return nil
	}
	byIdx := map[int64]ssa.Value{}
	max := int64(-1)
	for _, ref := range *al.Referrers() {
		if ia, ok := ref.(*ssa.IndexAddr); ok {
			k, ok := ConstInt(ia.Index)
			if !ok {
				return nil
			}
			for _, r2 := range *ia.Referrers() {
				if st, ok := r2.(*ssa.Store); ok && st.Addr == ssa.Value(ia) {
					byIdx[k] = st.Val
					if k > max {
						max = k
					}
				}
			}
		}
	}
	out := make([]ssa.Value, max+1)
	for k, v := range byIdx {
		out[k] = v
	}
	return out
}
