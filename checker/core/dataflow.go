package core

import "golang.org/x/tools/go/ssa"

// ForwardMust runs a forward "must" dataflow for one boolean fact over fn's CFG.
//   - entry: value of the fact at function entry
//   - transfer: value after an instruction given the value before it
//   - edge: value on the edge from block `from` to successor index k, given the value at the end of `from`
//     (lets a rule refine the fact on the true/false edge of a branch); may be nil
//
// The result maps every block to the value of the fact at its entry (true only if it holds on all incoming paths);
// At returns the value just before an instruction.
type MustResult struct {
	fn       *ssa.Function
	in       map[*ssa.BasicBlock]bool
	transfer func(in ssa.Instruction, before bool) bool
}

func ForwardMust(fn *ssa.Function, entry bool, transfer func(in ssa.Instruction, before bool) bool,
	edge func(from *ssa.BasicBlock, k int, atEnd bool) bool) *MustResult {
	in := map[*ssa.BasicBlock]bool{}
	out := map[*ssa.BasicBlock]bool{}
	reached := map[*ssa.BasicBlock]bool{}
	for _, b := range fn.Blocks {
		in[b] = true // top
		out[b] = true
	}
	if len(fn.Blocks) == 0 {
		return &MustResult{fn, in, transfer}
	}
	in[fn.Blocks[0]] = entry
	reached[fn.Blocks[0]] = true
	changed := true
	for iter := 0; changed && iter < 1000; iter++ {
		changed = false
		for _, b := range fn.Blocks {
			if b != fn.Blocks[0] {
				v := true
				any := false
				for _, p := range b.Preds {
					if !reached[p] {
						continue
					}
					any = true
					ev := out[p]
					if edge != nil {
						for k, s := range p.Succs {
							if s == b {
								ev2 := edge(p, k, out[p])
								// if p reaches b by both edges, the fact must hold on both
								if k == 0 || p.Succs[0] != b {
									ev = ev2
								} else {
									ev = ev && ev2
								}
							}
						}
					}
					v = v && ev
				}
				if !any {
					continue
				}
				if !reached[b] || in[b] != v {
					reached[b] = true
					in[b] = v
					changed = true
				}
			}
			cur := in[b]
			for _, ins := range b.Instrs {
				cur = transfer(ins, cur)
			}
			if out[b] != cur {
				out[b] = cur
				changed = true
			}
		}
	}
	return &MustResult{fn, in, transfer}
}

// At returns the fact just before instruction target.
func (m *MustResult) At(target ssa.Instruction) bool {
	b := target.Block()
	cur := m.in[b]
	for _, ins := range b.Instrs {
		if ins == target {
			return cur
		}
		cur = m.transfer(ins, cur)
	}
	return cur
}

// ForwardLowerBound computes, per block entry, a lower bound of one integer quantity that the function never
// changes (e.g. len(args)): the minimum over all incoming edges of the bound established on that edge, where
// implied(cond, taken) gives the bound a branch edge establishes (ok=false if none).
func ForwardLowerBound(fn *ssa.Function, entry int64, implied func(cond ssa.Value, taken bool) (int64, bool)) map[*ssa.BasicBlock]int64 {
	const top = int64(1) << 60
	in := map[*ssa.BasicBlock]int64{}
	for _, b := range fn.Blocks {
		in[b] = top
	}
	if len(fn.Blocks) == 0 {
		return in
	}
	in[fn.Blocks[0]] = entry
	for changed, iter := true, 0; changed && iter < 1000; iter++ {
		changed = false
		for _, b := range fn.Blocks {
			if b == fn.Blocks[0] {
				continue
			}
			v := top
			for _, p := range b.Preds {
				if in[p] == top {
					continue // not reached yet
				}
				ev := in[p]
				if len(p.Instrs) > 0 {
					if iff, ok := p.Instrs[len(p.Instrs)-1].(*ssa.If); ok && p.Succs[0] != p.Succs[1] {
						for k, s := range p.Succs {
							if s == b {
								if lb, ok := implied(iff.Cond, k == 0); ok && lb > ev {
									ev = lb
								}
							}
						}
					}
				}
				if ev < v {
					v = ev
				}
			}
			if v != in[b] && v != top {
				in[b] = v
				changed = true
			}
		}
	}
	for b, v := range in {
		if v == top {
			in[b] = entry // unreachable blocks: irrelevant
		}
	}
	return in
}

// MapWritesThrough returns the map updates (m[k] = v, delete(m, k)) in fn, its closures and the module functions it
// hands the value to, whose map may be the very map value `v` of fn (followed through phis, type changes, cells that
// closures capture, and parameters). depth bounds the calls entered.
func MapWritesThrough(v ssa.Value, depth int) []ssa.Instruction {
	var out []ssa.Instruction
	seenV := map[ssa.Value]bool{}
	var track func(v ssa.Value, depth int)
	track = func(v ssa.Value, depth int) {
		if v == nil || seenV[v] {
			return
		}
		seenV[v] = true
		refs := v.Referrers()
		if refs == nil {
			return
		}
		for _, ref := range *refs {
			switch x := ref.(type) {
			case *ssa.MapUpdate:
				if x.Map == v {
					out = append(out, x)
				}
			case *ssa.Phi:
				track(x, depth)
			case *ssa.ChangeType:
				track(x, depth)
			case *ssa.MakeInterface:
				// not followed
			case *ssa.Store:
				if x.Val != v {
					continue
				}
				if al, ok := x.Addr.(*ssa.Alloc); ok {
					// every load of the cell, here and in closures that capture it
					trackCell(al, depth, track)
				}
			case ssa.CallInstruction:
				c := x.Common()
				if b, ok := c.Value.(*ssa.Builtin); ok {
					if b.Name() == "delete" && len(c.Args) > 0 && c.Args[0] == v {
						out = append(out, x)
					}
					continue
				}
				callee := c.StaticCallee()
				if callee == nil || len(callee.Blocks) == 0 || depth <= 0 {
					continue
				}
				for i, a := range c.Args {
					if a == v && i < len(callee.Params) {
						track(callee.Params[i], depth-1)
					}
				}
			}
		}
	}
	track(v, depth)
	return out
}

func trackCell(al *ssa.Alloc, depth int, track func(ssa.Value, int)) {
	for _, ref := range *al.Referrers() {
		switch x := ref.(type) {
		case *ssa.UnOp:
			track(x, depth)
		case *ssa.MakeClosure:
			fn, ok := x.Fn.(*ssa.Function)
			if !ok {
				continue
			}
			for i, b := range x.Bindings {
				if b == ssa.Value(al) && i < len(fn.FreeVars) {
					fv := fn.FreeVars[i]
					for _, r2 := range *fv.Referrers() {
						if ld, ok := r2.(*ssa.UnOp); ok {
							track(ld, depth)
						}
					}
				}
			}
		}
	}
}
