package core

import (
	"fmt"
	"go/constant"
	"go/token"
	"go/types"

	"golang.org/x/tools/go/ssa"
)

// Path-sensitive fact propagation over the SSA control-flow graph of one (small) function: every path from the
// entry to an exit is enumerated with each back edge taken at most LoopBound times; boolean SSA values are tracked
// in the three-valued domain {True, False, Unknown}; a branch on a known condition follows one edge, a branch on an
// unknown condition forks. Rules supply the abstract effect and result of calls. This is an ESP-style typestate
// dataflow with correlated boolean facts, not a symbolic executor: values other than booleans/nil-ness are opaque.

type AB int8 // abstract boolean

const (
	Unk AB = iota
	True
	False
)

func (a AB) String() string { return [...]string{"?", "T", "F"}[a] }

func abOf(b bool) AB {
	if b {
		return True
	}
	return False
}

// Effect is something a rule records along a path.
type Effect struct {
	Kind  string
	Instr ssa.Instruction
	Data  any
}

// PathState is the state at one point of one path.
type PathState struct {
	Vals    map[ssa.Value]AB
	Effects []Effect
	Blocks  []int // block indices visited, for reports
	edges   map[[2]int]int
	// Eq records the outcome of equality comparisons on non-boolean operands, keyed by the operand pair, so that a
	// later `x != c` is decided by an earlier `x == c` on the same path
	Eq map[[2]string]AB
}

func (s *PathState) clone() *PathState {
	n := &PathState{Vals: make(map[ssa.Value]AB, len(s.Vals)), edges: make(map[[2]int]int, len(s.edges)), Eq: make(map[[2]string]AB, len(s.Eq))}
	for k, v := range s.Vals {
		n.Vals[k] = v
	}
	for k, v := range s.Eq {
		n.Eq[k] = v
	}
	for k, v := range s.edges {
		n.edges[k] = v
	}
	n.Effects = append([]Effect(nil), s.Effects...)
	n.Blocks = append([]int(nil), s.Blocks...)
	return n
}

// Has reports whether an effect of the kind was recorded.
func (s *PathState) Has(kind string) bool {
	for _, e := range s.Effects {
		if e.Kind == kind {
			return true
		}
	}
	return false
}

// Val evaluates an SSA value in the abstract boolean domain.
func (s *PathState) Val(v ssa.Value) AB {
	if a, ok := s.Vals[v]; ok {
		return a
	}
	switch x := v.(type) {
	case *ssa.Const:
		if x.Value != nil && x.Value.Kind() == constant.Bool {
			return abOf(constant.BoolVal(x.Value))
		}
	case *ssa.UnOp:
		if x.Op == token.NOT {
			switch s.Val(x.X) {
			case True:
				return False
			case False:
				return True
			}
		}
	case *ssa.BinOp:
		if x.Op == token.EQL || x.Op == token.NEQ {
			if e, ok := s.Eq[eqKey(x.X, x.Y)]; ok && e != Unk {
				if x.Op == token.EQL {
					return e
				}
				if e == True {
					return False
				}
				return True
			}
		}
		if b, ok := x.X.Type().Underlying().(*types.Basic); ok && b.Info()&types.IsBoolean != 0 {
			l, r := s.Val(x.X), s.Val(x.Y)
			if l != Unk && r != Unk {
				switch x.Op {
				case token.EQL:
					return abOf(l == r)
				case token.NEQ:
					return abOf(l != r)
				case token.AND:
					return abOf(l == True && r == True)
				case token.OR:
					return abOf(l == True || r == True)
				}
			}
			if x.Op == token.OR && (l == True || r == True) {
				return True
			}
			if x.Op == token.AND && (l == False || r == False) {
				return False
			}
		}
	}
	return Unk
}

// CallOutcome is one possible abstract outcome of a call: the abstract value of its (boolean) result and the
// effects it has in that case.
type CallOutcome struct {
	Result  AB
	Effects []Effect
}

// PathRules are the callbacks of a path analysis.
type PathRules struct {
	// OnCall returns the possible outcomes of a call; nil/empty = one outcome, no effect, unknown result.
	OnCall func(s *PathState, c ssa.CallInstruction) []CallOutcome
	// OnInstr is called for every non-call instruction (stores etc.); it may append effects.
	OnInstr func(s *PathState, in ssa.Instruction)
	// OnBranch may decide a condition the boolean domain cannot (e.g. nil-ness facts): return Unk to fork.
	OnBranch func(s *PathState, cond ssa.Value) AB
	// OnEdge is called after a conditional edge is taken with the condition and its value on that edge.
	OnEdge func(s *PathState, cond ssa.Value, taken bool)
	// OnExit is called at every Return (ret != nil) or Panic exit.
	OnExit func(s *PathState, ret *ssa.Return, pan *ssa.Panic)
	// OnPhi is called for every phi of a block when the block is entered over its edge number `edge`; all phis of the
	// block see the state before any of them is updated; a returned effect is appended afterwards.
	OnPhi func(s *PathState, phi *ssa.Phi, edge int) *Effect
	// OnBackEdge is called before a loop back edge is taken; returning false ends the path there.
	OnBackEdge func(s *PathState, from, to *ssa.BasicBlock) bool
	LoopBound  int
	MaxPaths   int
}

// PathResult summarises an exploration.
type PathResult struct {
	Paths     int
	Truncated bool
}

// ExplorePaths runs the path enumeration on fn.
func ExplorePaths(fn *ssa.Function, rules PathRules) PathResult {
	if rules.LoopBound == 0 {
		rules.LoopBound = 2
	}
	if rules.MaxPaths == 0 {
		rules.MaxPaths = 50000
	}
	res := PathResult{}
	if len(fn.Blocks) == 0 {
		return res
	}
	var run func(s *PathState, b *ssa.BasicBlock, from *ssa.BasicBlock, start int)
	run = func(s *PathState, b *ssa.BasicBlock, from *ssa.BasicBlock, start int) {
		if res.Truncated {
			return
		}
		if start == 0 {
			s.Blocks = append(s.Blocks, b.Index)
			// values defined in this block are recomputed: forget facts from an earlier visit
			for _, in := range b.Instrs {
				if v, ok := in.(ssa.Value); ok {
					if _, isPhi := in.(*ssa.Phi); !isPhi {
						delete(s.Vals, v)
					}
					for k := range s.Eq {
						if k[0] == v.Name() || k[1] == v.Name() {
							delete(s.Eq, k)
						}
					}
				}
			}
			// phis first, evaluated simultaneously w.r.t. the incoming edge
			if from != nil {
				idx := -1
				for i, p := range b.Preds {
					if p == from {
						idx = i
						break
					}
				}
				upd := map[ssa.Value]AB{}
				var phiEffects []Effect
				for _, in := range b.Instrs {
					phi, ok := in.(*ssa.Phi)
					if !ok {
						break
					}
					if idx >= 0 {
						upd[phi] = s.Val(phi.Edges[idx])
						if rules.OnPhi != nil {
							if e := rules.OnPhi(s, phi, idx); e != nil {
								phiEffects = append(phiEffects, *e)
							}
						}
					}
				}
				s.Effects = append(s.Effects, phiEffects...)
				for k, v := range upd {
					s.Vals[k] = v
					for ek := range s.Eq {
						if ek[0] == k.Name() || ek[1] == k.Name() {
							delete(s.Eq, ek) // the phi holds a new value now
						}
					}
				}
			}
		}
		for i := start; i < len(b.Instrs); i++ {
			in := b.Instrs[i]
			switch x := in.(type) {
			case *ssa.Phi:
				continue
			case ssa.CallInstruction:
				var outs []CallOutcome
				if rules.OnCall != nil {
					outs = rules.OnCall(s, x)
				}
				if len(outs) <= 1 {
					if len(outs) == 1 {
						s.Effects = append(s.Effects, outs[0].Effects...)
						if v, ok := x.(ssa.Value); ok && outs[0].Result != Unk {
							s.Vals[v] = outs[0].Result
						}
					}
					continue
				}
				for _, o := range outs {
					ns := s.clone()
					ns.Effects = append(ns.Effects, o.Effects...)
					if v, ok := x.(ssa.Value); ok {
						if o.Result != Unk {
							ns.Vals[v] = o.Result
						} else {
							delete(ns.Vals, v)
						}
					}
					run(ns, b, from, i+1)
				}
				return
			case *ssa.If:
				c := s.Val(x.Cond)
				if c == Unk && rules.OnBranch != nil {
					c = rules.OnBranch(s, x.Cond)
				}
				take := func(st *PathState, succ int, val bool) {
					e := [2]int{b.Index, b.Succs[succ].Index}
					if b.Succs[succ].Dominates(b) {
						// back edge: bounded
						if rules.OnBackEdge != nil && !rules.OnBackEdge(st, b, b.Succs[succ]) {
							return
						}
						if st.edges[e] >= rules.LoopBound {
							return
						}
					} else if st.edges[e] >= rules.LoopBound+2 {
						return // safety net for irreducible control flow
					}
					st.edges[e]++
					if st.Val(x.Cond) == Unk {
						st.Vals[x.Cond] = abOf(val)
						// simple refinement: cond is !y  or  y == const
						refine(st, x.Cond, val)
					}
					if bo, ok := x.Cond.(*ssa.BinOp); ok && (bo.Op == token.EQL || bo.Op == token.NEQ) {
						st.Eq[eqKey(bo.X, bo.Y)] = abOf((bo.Op == token.EQL) == val)
					}
					if rules.OnEdge != nil {
						rules.OnEdge(st, x.Cond, val)
					}
					run(st, b.Succs[succ], b, 0)
				}
				switch c {
				case True:
					take(s, 0, true)
				case False:
					take(s, 1, false)
				default:
					take(s.clone(), 0, true)
					take(s, 1, false)
				}
				return
			case *ssa.Jump:
				e := [2]int{b.Index, b.Succs[0].Index}
				if b.Succs[0].Dominates(b) {
					if rules.OnBackEdge != nil && !rules.OnBackEdge(s, b, b.Succs[0]) {
						return
					}
					if s.edges[e] >= rules.LoopBound {
						return
					}
				} else if s.edges[e] >= rules.LoopBound+2 {
					return
				}
				s.edges[e]++
				run(s, b.Succs[0], b, 0)
				return
			case *ssa.Return:
				res.Paths++
				if res.Paths > rules.MaxPaths {
					res.Truncated = true
					return
				}
				if rules.OnExit != nil {
					rules.OnExit(s, x, nil)
				}
				return
			case *ssa.Panic:
				res.Paths++
				if rules.OnExit != nil {
					rules.OnExit(s, nil, x)
				}
				return
			default:
				if rules.OnInstr != nil {
					rules.OnInstr(s, in)
				}
			}
		}
	}
	run(&PathState{Vals: map[ssa.Value]AB{}, edges: map[[2]int]int{}, Eq: map[[2]string]AB{}}, fn.Blocks[0], nil, 0)
	return res
}

func refine(s *PathState, cond ssa.Value, val bool) {
	switch x := cond.(type) {
	case *ssa.UnOp:
		if x.Op == token.NOT {
			if s.Val(x.X) == Unk {
				s.Vals[x.X] = abOf(!val)
				refine(s, x.X, !val)
			}
		}
	case *ssa.BinOp:
		if b, ok := x.X.Type().Underlying().(*types.Basic); ok && b.Info()&types.IsBoolean != 0 {
			l, r := s.Val(x.X), s.Val(x.Y)
			switch x.Op {
			case token.EQL, token.NEQ:
				same := (x.Op == token.EQL) == val
				if l != Unk && r == Unk {
					if same {
						s.Vals[x.Y] = l
					} else {
						s.Vals[x.Y] = abOf(l != True)
					}
				} else if r != Unk && l == Unk {
					if same {
						s.Vals[x.X] = r
					} else {
						s.Vals[x.X] = abOf(r != True)
					}
				}
			}
		}
	}
}

// BlockPath renders the visited blocks of a path.
func (s *PathState) BlockPath() string { return fmt.Sprint(s.Blocks) }

func eqOperand(v ssa.Value) string {
	if c, ok := v.(*ssa.Const); ok {
		return "const:" + c.String()
	}
	return v.Name()
}

func eqKey(x, y ssa.Value) [2]string { return [2]string{eqOperand(x), eqOperand(y)} }
