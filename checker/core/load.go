// Package core holds the shared loader, IR helpers and report format of vcheck.
package core

import (
	"encoding/json"
	"fmt"
	"go/ast"
	"go/token"
	"go/types"
	"os"
	"path/filepath"
	"sort"
	"strings"
	"time"

	"golang.org/x/tools/go/callgraph"
	"golang.org/x/tools/go/callgraph/cha"
	"golang.org/x/tools/go/callgraph/vta"
	"golang.org/x/tools/go/packages"
	"golang.org/x/tools/go/ssa"
	"golang.org/x/tools/go/ssa/ssautil"
)

// ModPath is the module under analysis.
const ModPath = "github.com/nyaruka/goflow"

// MinPackages is the number of packages confirmed by hand on the pinned tree (go list ./...).
const MinPackages = 54

// Program is the resolved program all rules work on.
type Program struct {
	Repo   string
	Fset   *token.FileSet
	Pkgs   []*packages.Package          // module packages, sorted by path
	ByPkg  map[string]*packages.Package // every loaded package by path
	modFns []*ssa.Function
	SSA    *ssa.Program
	Tests  bool

	cgVTA *callgraph.Graph
	cgCHA *callgraph.Graph
	allFn map[*ssa.Function]bool

	LoadSecs float64
}

// Load type-checks ./... of repo and builds SSA. overlayFile may be "" or a JSON map path->content file.
func Load(repo string, tests bool, overlayFile string, goarch string) (*Program, error) {
	start := time.Now()
	os.Unsetenv("GOWORK")
	env := append(os.Environ(), "GOFLAGS=-mod=mod", "GOPROXY=off", "GOSUMDB=off", "GOTOOLCHAIN=local", "GOWORK=off")
	if goarch != "" {
		env = append(env, "GOARCH="+goarch)
	}
	cfg := &packages.Config{
		Mode:  packages.LoadAllSyntax,
		Dir:   repo,
		Tests: tests,
		Env:   env,
	}
	if overlayFile != "" {
		b, err := os.ReadFile(overlayFile)
		if err != nil {
			return nil, fmt.Errorf("overlay: %w", err)
		}
		m := map[string]string{}
		if err := json.Unmarshal(b, &m); err != nil {
			return nil, fmt.Errorf("overlay: %w", err)
		}
		cfg.Overlay = map[string][]byte{}
		for k, v := range m {
			if !filepath.IsAbs(k) {
				k = filepath.Join(repo, k)
			}
			cfg.Overlay[k] = []byte(v)
		}
	}
	initial, err := packages.Load(cfg, "./...")
	if err != nil {
		return nil, fmt.Errorf("load: %w", err)
	}
	p := &Program{Repo: repo, ByPkg: map[string]*packages.Package{}, Tests: tests}
	var errs []string
	packages.Visit(initial, nil, func(pk *packages.Package) {
		// with Tests=true prefer the test variant of a package (superset of files)
		if old, ok := p.ByPkg[pk.PkgPath]; ok && len(old.Syntax) >= len(pk.Syntax) {
			return
		}
		p.ByPkg[pk.PkgPath] = pk
	})
	seen := map[string]bool{}
	for _, pk := range initial {
		if p.Fset == nil {
			p.Fset = pk.Fset
		}
		for _, e := range pk.Errors {
			errs = append(errs, pk.PkgPath+": "+e.Error())
		}
		if strings.HasSuffix(pk.PkgPath, ".test") || strings.HasSuffix(pk.ID, ".test") {
			continue
		}
		if pk.PkgPath == ModPath || strings.HasPrefix(pk.PkgPath, ModPath+"/") {
			if seen[pk.PkgPath] {
				continue
			}
			seen[pk.PkgPath] = true
			p.Pkgs = append(p.Pkgs, p.ByPkg[pk.PkgPath])
		}
	}
	if len(errs) > 0 {
		sort.Strings(errs)
		if len(errs) > 10 {
			errs = errs[:10]
		}
		return nil, fmt.Errorf("type errors: %s", strings.Join(errs, "; "))
	}
	sort.Slice(p.Pkgs, func(i, j int) bool { return p.Pkgs[i].PkgPath < p.Pkgs[j].PkgPath })
	if len(p.Pkgs) < MinPackages {
		return nil, fmt.Errorf("only %d module packages loaded, expected >= %d", len(p.Pkgs), MinPackages)
	}
	if p.ByPkg[ModPath+"/antlr/gen/excellent3"] == nil || p.ByPkg[ModPath+"/antlr/gen/contactql"] == nil {
		return nil, fmt.Errorf("generated parser packages missing")
	}
	prog, _ := ssautil.AllPackages(initial, ssa.InstantiateGenerics)
	prog.Build()
	p.SSA = prog
	p.LoadSecs = time.Since(start).Seconds()
	return p, nil
}

// InModule reports whether the package path belongs to goflow.
func InModule(path string) bool {
	return path == ModPath || strings.HasPrefix(path, ModPath+"/")
}

// Pkg returns the module package with the given path relative to the module root ("" = root).
func (p *Program) Pkg(rel string) *packages.Package {
	path := ModPath
	if rel != "" {
		path = ModPath + "/" + rel
	}
	return p.ByPkg[path]
}

// SSAPkg returns the ssa package for a module-relative path.
func (p *Program) SSAPkg(rel string) *ssa.Package {
	pk := p.Pkg(rel)
	if pk == nil {
		return nil
	}
	return p.SSA.Package(pk.Types)
}

// AllFunctions returns every function of the program (cached).
func (p *Program) AllFunctions() map[*ssa.Function]bool {
	if p.allFn == nil {
		p.allFn = ssautil.AllFunctions(p.SSA)
	}
	return p.allFn
}

// ModuleFunctions returns all functions (incl. anonymous and methods) whose package is in the module,
// sorted by position for deterministic output. Synthetic wrappers are skipped; package initializers (the home of
// package-level variable initialisers) are kept.
func (p *Program) ModuleFunctions() []*ssa.Function {
	if p.modFns != nil {
		return p.modFns
	}
	var out []*ssa.Function
	for fn := range p.AllFunctions() {
		if fn.Synthetic != "" && !strings.HasPrefix(fn.Synthetic, "instance of") && fn.Synthetic != "package initializer" {
			continue
		}
		pk := fn.Package()
		if pk == nil && fn.Origin() != nil {
			pk = fn.Origin().Package()
		}
		if pk == nil {
			if fn.Parent() != nil {
				pk = fn.Parent().Package()
			}
		}
		if pk == nil || pk.Pkg == nil || !InModule(pk.Pkg.Path()) {
			continue
		}
		if fn.Blocks == nil {
			continue
		}
		out = append(out, fn)
	}
	// token.Pos values depend on the order in which go/packages happened to add the files to the file set, which
	// differs from run to run: order by file name and offset instead
	type k struct {
		file string
		off  int
		name string
	}
	keys := make(map[*ssa.Function]k, len(out))
	for _, fn := range out {
		ps := p.SSA.Fset.Position(fn.Pos())
		keys[fn] = k{ps.Filename, ps.Offset, fn.String()}
	}
	sort.Slice(out, func(i, j int) bool {
		a, b := keys[out[i]], keys[out[j]]
		if a.file != b.file {
			return a.file < b.file
		}
		if a.off != b.off {
			return a.off < b.off
		}
		return a.name < b.name
	})
	p.modFns = out
	return out
}

// FuncPkgPath returns the package path that owns fn ("" if none).
func FuncPkgPath(fn *ssa.Function) string {
	for f := fn; f != nil; f = f.Parent() {
		if f.Package() != nil && f.Package().Pkg != nil {
			return f.Package().Pkg.Path()
		}
		if f.Origin() != nil && f.Origin().Package() != nil {
			return f.Origin().Package().Pkg.Path()
		}
	}
	if fn.Object() != nil && fn.Object().Pkg() != nil {
		return fn.Object().Pkg().Path()
	}
	return ""
}

// RelPkg strips the module prefix.
func RelPkg(path string) string {
	if path == ModPath {
		return ""
	}
	return strings.TrimPrefix(path, ModPath+"/")
}

// CG returns the VTA call graph (seeded by CHA).
func (p *Program) CG() *callgraph.Graph {
	if p.cgVTA == nil {
		p.cgVTA = vta.CallGraph(p.AllFunctions(), p.CHA())
	}
	return p.cgVTA
}

// CHA returns the class-hierarchy call graph.
func (p *Program) CHA() *callgraph.Graph {
	if p.cgCHA == nil {
		p.cgCHA = cha.CallGraph(p.SSA)
	}
	return p.cgCHA
}

// Func finds a package-level function by module-relative package and name.
func (p *Program) Func(rel, name string) *ssa.Function {
	sp := p.SSAPkg(rel)
	if sp == nil {
		return nil
	}
	return sp.Func(name)
}

// Method finds method `name` on named type `typ` (pointer or value receiver) in package rel.
func (p *Program) Method(rel, typ, name string) *ssa.Function {
	pk := p.Pkg(rel)
	if pk == nil {
		return nil
	}
	obj := pk.Types.Scope().Lookup(typ)
	if obj == nil {
		return nil
	}
	tn, ok := obj.(*types.TypeName)
	if !ok {
		return nil
	}
	for _, t := range []types.Type{tn.Type(), types.NewPointer(tn.Type())} {
		ms := p.SSA.MethodSets.MethodSet(t)
		for i := 0; i < ms.Len(); i++ {
			sel := ms.At(i)
			if sel.Obj().Name() == name {
				fn := p.SSA.MethodValue(sel)
				// unwrap promoted-method wrappers to the declared function when it is declared on this type
				if fn != nil && fn.Synthetic == "" {
					return fn
				}
				if fn != nil {
					if f := p.SSA.FuncValue(sel.Obj().(*types.Func)); f != nil {
						return f
					}
					return fn
				}
			}
		}
	}
	return nil
}

// NamedType looks up a named type in a module-relative package.
func (p *Program) NamedType(rel, name string) *types.Named {
	pk := p.Pkg(rel)
	if pk == nil {
		return nil
	}
	obj := pk.Types.Scope().Lookup(name)
	if obj == nil {
		return nil
	}
	n, _ := obj.Type().(*types.Named)
	return n
}

// Interface returns the underlying interface of a named type.
func (p *Program) Interface(rel, name string) *types.Interface {
	n := p.NamedType(rel, name)
	if n == nil {
		return nil
	}
	i, _ := n.Underlying().(*types.Interface)
	return i
}

// Implementers returns the named struct types declared in the module (non-test) whose pointer or value
// implements iface, sorted by qualified name.
func (p *Program) Implementers(iface *types.Interface) []*types.Named {
	var out []*types.Named
	for _, pk := range p.Pkgs {
		sc := pk.Types.Scope()
		for _, nm := range sc.Names() {
			tn, ok := sc.Lookup(nm).(*types.TypeName)
			if !ok || tn.IsAlias() {
				continue
			}
			n, ok := tn.Type().(*types.Named)
			if !ok {
				continue
			}
			if _, isI := n.Underlying().(*types.Interface); isI {
				continue
			}
			if n.TypeParams().Len() > 0 {
				continue
			}
			if types.Implements(n, iface) || types.Implements(types.NewPointer(n), iface) {
				out = append(out, n)
			}
		}
	}
	sort.Slice(out, func(i, j int) bool { return QualName(out[i]) < QualName(out[j]) })
	return out
}

// QualName renders pkgrel.Type.
func QualName(n *types.Named) string {
	if n.Obj().Pkg() == nil {
		return n.Obj().Name()
	}
	return RelPkg(n.Obj().Pkg().Path()) + "." + n.Obj().Name()
}

// Pos renders a position relative to the repo.
func (p *Program) Pos(pos token.Pos) string {
	if !pos.IsValid() {
		return "-"
	}
	ps := p.Fset.Position(pos)
	f := ps.Filename
	if r, err := filepath.Rel(p.Repo, f); err == nil && !strings.HasPrefix(r, "..") {
		f = r
	}
	return fmt.Sprintf("%s:%d", f, ps.Line)
}

// FuncName gives a stable, readable name for a function: relpkg.(Recv).Name or relpkg.Name$1.
func FuncName(fn *ssa.Function) string {
	if fn == nil {
		return "<nil>"
	}
	s := fn.String()
	s = strings.ReplaceAll(s, ModPath+"/", "")
	s = strings.ReplaceAll(s, ModPath, "goflow")
	return s
}

// FileOf returns the *ast.File containing pos within a package.
func FileOf(pk *packages.Package, pos token.Pos) *ast.File {
	for _, f := range pk.Syntax {
		if f.Pos() <= pos && pos <= f.End() {
			return f
		}
	}
	return nil
}

// IsTestFile reports whether a position is in a _test.go file.
func (p *Program) IsTestFile(pos token.Pos) bool {
	return strings.HasSuffix(p.Fset.Position(pos).Filename, "_test.go")
}
